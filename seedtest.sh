#!/bin/bash
# usage: seedtest.sh <property> <seed dir with patch.diff demo_test.go> <package dir relative to repo> [extra checks...]
# 1. confirms the seed in a scratch worktree: builds, existing package tests pass, demo fails with / passes without the change
# 2. applies it to /repo, runs the property's quick check(s), undoes it
set -u
PROP=$1; SEED=$2; PKG=$3; shift 3
export PATH=/opt/veriftools/go1.26.8/bin:$PATH GOFLAGS=-mod=mod GOPROXY=off GOSUMDB=off GOTOOLCHAIN=local
WT=/tmp/seedwt_$$
git -C /repo worktree add -q --detach $WT HEAD || exit 2
trap 'git -C /repo worktree remove --force $WT >/dev/null 2>&1' EXIT
cd $WT
git apply $SEED/patch.diff || { echo "SEED: patch does not apply"; exit 2; }
go build ./... >/dev/null 2>&1 && echo "SEED: builds with change" || { echo "SEED: does not build"; exit 2; }
go test -vet=off -count=1 ./$PKG/ >/tmp/seed_t1.log 2>&1 && echo "SEED: existing tests pass with change" || { echo "SEED: existing tests FAIL with change"; tail -5 /tmp/seed_t1.log; }
cp $SEED/demo_test.go $PKG/zz_seed_demo_test.go
if go test -vet=off -count=1 ./$PKG/ >/tmp/seed_t2.log 2>&1; then echo "SEED: demo does NOT fail with change"; else echo "SEED: demo fails with change"; fi
git apply -R $SEED/patch.diff
if go test -vet=off -count=1 ./$PKG/ >/tmp/seed_t3.log 2>&1; then echo "SEED: demo passes without change"; else echo "SEED: demo FAILS without change"; tail -5 /tmp/seed_t3.log; fi
cd /verif
git -C /repo apply $SEED/patch.diff || { echo "cannot apply to /repo"; exit 2; }
for P in $PROP "$@"; do
  ./check $P quick > /tmp/seed_check_$P.log 2>&1; echo "CHECK $P exit=$? $(grep -c '^VIOLATION' /tmp/seed_check_$P.log) violation line(s)"; grep '^VIOLATION' /tmp/seed_check_$P.log | cut -c1-220 | head -4
done
git -C /repo checkout -- . 
