#!/bin/bash
# runs the second batch of seeded changes through the checks (sequentially: each one edits /repo and restores it)
cd /verif
run() { echo "=== $1/$2"; ./seedtest.sh $3 /tmp/seed/$1/$2 $4 ${5:-}; }
run C19 1 C19 internal/tlast
run C19 2 C20 internal/tlast
run C19 3 C19 internal/tlast
run C30 1 C30 internal/tlcodegen
run C30 2 C30 internal/tlcodegen
run C39 1 C39 pkg/rpc
run C39 2 C39 pkg/rpc
run C41b 1 C41 internal/vkgo/pkg/algo
run C41b 2 C41 internal/vkgo/pkg/algo
run C41b 3 C41 internal/vkgo/pkg/algo
