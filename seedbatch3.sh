#!/bin/bash
cd /verif
run() { echo "=== $1/$2"; ./seedtest.sh $3 /tmp/seed/$1/$2 $4 ${5:-}; }
run C37 1 C37 pkg/rpc/udp
run C37 2 C37 pkg/rpc/udp
run C37 3 C37 pkg/rpc/udp
run C42b 1 C42 internal/vkgo/pkg/semaphore
run C42b 2 C42 internal/vkgo/pkg/semaphore
run C42b 3 C42 internal/vkgo/pkg/semaphore
run C33b 1 C33 pkg/basictl
run C33b 2 C33 pkg/basictl C13
run C33b 3 C33 pkg/basictl C08
run C33b 4 C33 internal/vkgo/pkg/basictl C02
