package main

import (
	"fmt"
	"os"

	"golang.org/x/tools/go/packages"
	"golang.org/x/tools/go/ssa"
	"golang.org/x/tools/go/ssa/ssautil"
)

func main() {
	dir, pat, fn := os.Args[1], os.Args[2], os.Args[3]
	cfg := &packages.Config{Mode: packages.LoadAllSyntax, Dir: dir, BuildFlags: []string{"-tags=verif"}}
	pkgs, err := packages.Load(cfg, pat)
	if err != nil {
		panic(err)
	}
	prog, spkgs := ssautil.AllPackages(pkgs, ssa.GlobalDebug|ssa.InstantiateGenerics&0)
	_ = prog
	for _, p := range spkgs {
		if p == nil {
			continue
		}
		p.Build()
		if f := p.Func(fn); f != nil {
			f.WriteTo(os.Stdout)
			for _, af := range f.AnonFuncs {
				af.WriteTo(os.Stdout)
			}
		}
		for _, m := range p.Members {
			if t, ok := m.(*ssa.Type); ok {
				ms := prog.MethodSets.MethodSet(t.Type())
				for i := 0; i < ms.Len(); i++ {
					if ms.At(i).Obj().Name() == fn {
						prog.MethodValue(ms.At(i)).WriteTo(os.Stdout)
					}
				}
			}
		}
	}
	fmt.Println()
}
