package main

import (
	"fmt"
	"go/types"
	"os"

	"golang.org/x/tools/go/packages"
	"golang.org/x/tools/go/ssa"
	"golang.org/x/tools/go/ssa/ssautil"
)

// ssadump2 <dir> <pkg pattern> <func or method name>: prints the SSA of matching functions (generic bodies included).
func main() {
	dir, pat, fn := os.Args[1], os.Args[2], os.Args[3]
	cfg := &packages.Config{Mode: packages.LoadAllSyntax, Dir: dir, BuildFlags: []string{"-tags=verif"}}
	pkgs, err := packages.Load(cfg, pat)
	if err != nil {
		panic(err)
	}
	prog, spkgs := ssautil.AllPackages(pkgs, ssa.GlobalDebug)
	prog.Build()
	for _, p := range spkgs {
		if p == nil {
			continue
		}
		if f := p.Func(fn); f != nil {
			f.WriteTo(os.Stdout)
			for _, af := range f.AnonFuncs {
				af.WriteTo(os.Stdout)
			}
		}
		for _, m := range p.Members {
			t, ok := m.(*ssa.Type)
			if !ok {
				continue
			}
			named, ok := t.Type().(*types.Named)
			if !ok {
				continue
			}
			for i := 0; i < named.NumMethods(); i++ {
				if named.Method(i).Name() == fn {
					if f := prog.FuncValue(named.Method(i)); f != nil {
						f.WriteTo(os.Stdout)
						for _, af := range f.AnonFuncs {
							af.WriteTo(os.Stdout)
						}
					}
				}
			}
		}
	}
	fmt.Println()
}
