package main

import (
	"fmt"
	"go/types"
	"strings"

	"govc/spec"
)

// specCompiler prints a contract expression as Go source (for replay tests).
type specCompiler struct {
	g      *replayGen
	env    map[string]string // spec name -> Go expression
	oldEnv map[string]string
	scope  map[string]string // bound variables
	inOld  bool
	n      int
}

func (c *specCompiler) compile(e spec.Expr) string {
	s, _ := c.expr(e)
	return s
}

func (c *specCompiler) nameType(name string) types.Type {
	if n := len(c.g.paramTypes); n > 0 {
		return c.g.paramTypes[n-1][name] // inside a spec function: its own parameters
	}
	fn := c.g.c.Fn
	names := []string{}
	if fn.Signature.Recv() != nil {
		rn := c.g.c.C.RecvName
		if rn == "" {
			rn = fn.Params[0].Name()
		}
		names = append(names, rn)
	}
	for _, p := range c.g.c.C.Params {
		names = append(names, p.Name)
	}
	for i, n := range names {
		if n == name && i < len(fn.Params) {
			return fn.Params[i].Type()
		}
	}
	res := fn.Signature.Results()
	for i := 0; i < res.Len(); i++ {
		rn := res.At(i).Name()
		if i < len(c.g.c.C.Results) && c.g.c.C.Results[i].Name != "" {
			rn = c.g.c.C.Results[i].Name
		}
		if rn == name || (name == "result" && res.Len() == 1) {
			return res.At(i).Type()
		}
	}
	for _, b := range c.g.c.C.Behaviors {
		for _, gp := range b.Ghost {
			if gp.Name == name {
				return c.g.parseType(gp.Type.String())
			}
		}
	}
	return nil
}

func isSliceT(t types.Type) bool {
	if t == nil {
		return false
	}
	_, ok := t.Underlying().(*types.Slice)
	return ok
}

func (c *specCompiler) expr(e spec.Expr) (string, types.Type) {
	switch e := e.(type) {
	case *spec.IntLit:
		return e.Text, nil
	case *spec.CharLit:
		return fmt.Sprintf("%d", e.Val), nil
	case *spec.StrLit:
		return fmt.Sprintf("%q", e.Val), types.Typ[types.String]
	case *spec.Ident:
		if v, ok := c.scope[e.Name]; ok {
			return v, types.Typ[types.Int]
		}
		switch e.Name {
		case "true", "false":
			return e.Name, types.Typ[types.Bool]
		case "nil":
			return "nil", nil
		case "allocated":
			failReplay("clause mentions the ghost allocation counter")
		}
		m := c.env
		if c.inOld {
			m = c.oldEnv
		}
		if v, ok := m[e.Name]; ok {
			return v, c.nameType(e.Name)
		}
		if o := c.g.pkg.Scope().Lookup(e.Name); o != nil {
			return e.Name, o.Type()
		}
		failReplay("unknown name %s in clause", e.Name)
	case *spec.Unary:
		x, t := c.expr(e.X)
		if e.Op == "*" {
			if pt, ok := t.(*types.Pointer); ok {
				return "(*" + x + ")", pt.Elem()
			}
			if t != nil {
				if pt, ok := t.Underlying().(*types.Pointer); ok {
					return "(*" + x + ")", pt.Elem()
				}
			}
			return "(*" + x + ")", nil
		}
		return "(" + e.Op + x + ")", t
	case *spec.Binary:
		switch e.Op {
		case "==>":
			a, _ := c.expr(e.X)
			b, _ := c.expr(e.Y)
			return "(!(" + a + ") || (" + b + "))", types.Typ[types.Bool]
		case "<==>":
			a, _ := c.expr(e.X)
			b, _ := c.expr(e.Y)
			return "((" + a + ") == (" + b + "))", types.Typ[types.Bool]
		}
		a, ta := c.expr(e.X)
		b, tb := c.expr(e.Y)
		if (e.Op == "==" || e.Op == "!=") && (isSliceT(ta) || isSliceT(tb)) && a != "nil" && b != "nil" {
			r := "govcSeqEq(" + a + ", " + b + ")"
			if e.Op == "!=" {
				r = "!" + r
			}
			return r, types.Typ[types.Bool]
		}
		t := ta
		if t == nil {
			t = tb
		}
		switch e.Op {
		case "==", "!=", "<", "<=", ">", ">=", "&&", "||":
			t = types.Typ[types.Bool]
		}
		return "(" + a + " " + e.Op + " " + b + ")", t
	case *spec.Cond:
		cnd, _ := c.expr(e.C)
		a, ta := c.expr(e.A)
		b, tb := c.expr(e.B)
		t := ta
		if t == nil {
			t = tb
		}
		ts := "int"
		if t != nil {
			ts = types.TypeString(t, qualifier(c.g.pkg))
		}
		// untyped constant branches compared with a byte etc.: let Go infer through a generic helper
		if ta == nil && tb == nil {
			c.g.helpers["govcCond"] = "func govcCond[T any](c bool, a, b T) T {\n\tif c {\n\t\treturn a\n\t}\n\treturn b\n}\n"
			return "govcCond(" + cnd + ", " + a + ", " + b + ")", nil
		}
		return fmt.Sprintf("func() %s { if %s { return %s }; return %s }()", ts, cnd, a, b), t
	case *spec.Quant:
		return c.quant(e), types.Typ[types.Bool]
	case *spec.Let:
		v, t := c.expr(e.Val)
		c.n++
		name := fmt.Sprintf("let%d_%s", c.n, e.Name)
		old := c.scope[e.Name]
		c.scope[e.Name] = name
		body, bt := c.expr(e.Body)
		if old == "" {
			delete(c.scope, e.Name)
		} else {
			c.scope[e.Name] = old
		}
		ts := "bool"
		if bt != nil {
			ts = types.TypeString(bt, qualifier(c.g.pkg))
		}
		_ = t
		return fmt.Sprintf("func() %s { %s := %s; _ = %s; return %s }()", ts, name, v, name, body), bt
	case *spec.Index:
		x, t := c.expr(e.X)
		i, _ := c.expr(e.I)
		var et types.Type
		if t != nil {
			switch u := t.Underlying().(type) {
			case *types.Slice:
				et = u.Elem()
			case *types.Array:
				et = u.Elem()
			case *types.Basic:
				et = types.Typ[types.Uint8]
			}
		}
		return x + "[" + i + "]", et
	case *spec.SliceE:
		x, t := c.expr(e.X)
		lo, hi := "", ""
		if e.Lo != nil {
			lo, _ = c.expr(e.Lo)
		}
		if e.Hi != nil {
			hi, _ = c.expr(e.Hi)
		}
		return x + "[" + lo + ":" + hi + "]", t
	case *spec.Selector:
		if id, ok := e.X.(*spec.Ident); ok {
			if _, bound := c.env[id.Name]; !bound {
				if _, b2 := c.scope[id.Name]; !b2 {
					for _, ip := range c.g.pkg.Imports() {
						if ip.Name() == id.Name {
							c.g.imports[ip.Path()] = true
							if o := ip.Scope().Lookup(e.Name); o != nil {
								return id.Name + "." + e.Name, o.Type()
							}
							return id.Name + "." + e.Name, nil
						}
					}
				}
			}
		}
		x, t := c.expr(e.X)
		var ft types.Type
		if t != nil {
			u := t.Underlying()
			if pt, ok := u.(*types.Pointer); ok {
				u = pt.Elem().Underlying()
			}
			if st, ok := u.(*types.Struct); ok {
				for i := 0; i < st.NumFields(); i++ {
					if st.Field(i).Name() == e.Name {
						ft = st.Field(i).Type()
					}
				}
			}
		}
		return x + "." + e.Name, ft
	case *spec.TypeAssert:
		x, _ := c.expr(e.X)
		return x + ".(" + e.T.String() + ")", nil
	case *spec.Call:
		return c.call(e)
	}
	failReplay("clause uses an expression the replay compiler does not handle (%T)", e)
	return "", nil
}

func (c *specCompiler) quant(q *spec.Quant) string {
	if len(q.Vars) != 1 {
		failReplay("quantifier over several variables")
	}
	v := q.Vars[0]
	if v.Type.Kind != "name" || !strings.HasPrefix(v.Type.Name, "int") && !strings.HasPrefix(v.Type.Name, "uint") {
		failReplay("quantifier over %s", v.Type)
	}
	var guard, body spec.Expr
	if b, ok := q.Body.(*spec.Binary); ok && ((q.Forall && b.Op == "==>") || (!q.Forall && b.Op == "&&")) {
		guard, body = b.X, b.Y
	} else {
		failReplay("quantifier without a range guard")
	}
	// guard: conjunction containing lo <= v and v < hi
	var lo, hi spec.Expr
	var rest []spec.Expr
	var conj func(e spec.Expr)
	conj = func(e spec.Expr) {
		if b, ok := e.(*spec.Binary); ok && b.Op == "&&" {
			conj(b.X)
			conj(b.Y)
			return
		}
		if b, ok := e.(*spec.Binary); ok {
			if id, ok := b.Y.(*spec.Ident); ok && id.Name == v.Name && b.Op == "<=" && lo == nil {
				lo = b.X
				return
			}
			if id, ok := b.X.(*spec.Ident); ok && id.Name == v.Name && b.Op == "<" && hi == nil {
				hi = b.Y
				return
			}
		}
		rest = append(rest, e)
	}
	conj(guard)
	if lo == nil || hi == nil {
		failReplay("quantifier range is not of the form lo <= k && k < hi")
	}
	los, _ := c.expr(lo)
	his, _ := c.expr(hi)
	c.n++
	gv := fmt.Sprintf("q%d_%s", c.n, v.Name)
	old, had := c.scope[v.Name]
	c.scope[v.Name] = gv
	bs, _ := c.expr(body)
	var extra []string
	for _, r := range rest {
		s, _ := c.expr(r)
		extra = append(extra, s)
	}
	if had {
		c.scope[v.Name] = old
	} else {
		delete(c.scope, v.Name)
	}
	cond := bs
	if len(extra) > 0 {
		if q.Forall {
			cond = "!(" + strings.Join(extra, " && ") + ") || (" + bs + ")"
		} else {
			cond = strings.Join(extra, " && ") + " && (" + bs + ")"
		}
	}
	ts := v.Type.Name
	if q.Forall {
		return fmt.Sprintf("func() bool { for %s := %s(%s); %s < %s(%s); %s++ { if !(%s) { return false } }; return true }()", gv, ts, los, gv, ts, his, gv, cond)
	}
	return fmt.Sprintf("func() bool { for %s := %s(%s); %s < %s(%s); %s++ { if %s { return true } }; return false }()", gv, ts, los, gv, ts, his, gv, cond)
}

func (c *specCompiler) call(e *spec.Call) (string, types.Type) {
	if te, ok := e.Fun.(*spec.TypeE); ok {
		x, _ := c.expr(e.Args[0])
		return te.T.String() + "(" + x + ")", nil
	}
	name := ""
	if id, ok := e.Fun.(*spec.Ident); ok {
		name = id.Name
	}
	if name == "" {
		failReplay("call of a non-identifier in a clause")
	}
	if spec.IsBasicType(name) {
		x, _ := c.expr(e.Args[0])
		var t types.Type
		for _, b := range types.Typ {
			if b != nil && b.Name() == name {
				t = b
			}
		}
		if name == "byte" {
			t = types.Typ[types.Uint8]
		}
		return name + "(" + x + ")", t
	}
	switch name {
	case "old":
		oc := *c
		oc.inOld = true
		return oc.expr(e.Args[0])
	case "len", "cap":
		x, _ := c.expr(e.Args[0])
		return name + "(" + x + ")", types.Typ[types.Int]
	case "sameslice":
		a, _ := c.expr(e.Args[0])
		b, _ := c.expr(e.Args[1])
		return "govcSameSlice(" + a + ", " + b + ")", types.Typ[types.Bool]
	case "extends", "fresh":
		c.g.skipNote = append(c.g.skipNote, name+"(...) is about allocation identity and is taken as true in the replay")
		return "true", types.Typ[types.Bool]
	case "bits":
		x, t := c.expr(e.Args[0])
		c.g.imports["math"] = true
		if b, ok := t.Underlying().(*types.Basic); ok && b.Kind() == types.Float32 {
			return "math.Float32bits(" + x + ")", types.Typ[types.Uint32]
		}
		return "math.Float64bits(" + x + ")", types.Typ[types.Uint64]
	case "wraps":
		a, _ := c.expr(e.Args[0])
		b, _ := c.expr(e.Args[1])
		c.g.imports["errors"] = true
		return "errors.Is(" + a + ", " + b + ")", types.Typ[types.Bool]
	case "min", "max":
		a, t := c.expr(e.Args[0])
		b, _ := c.expr(e.Args[1])
		return name + "(" + a + ", " + b + ")", t
	}
	sf := c.g.prog.LookupSpecFunc(c.g.pkg, name)
	if sf == nil {
		failReplay("unknown function %s in clause", name)
	}
	hn := "sp_" + name
	if _, done := c.g.helpers[hn]; !done {
		c.g.helpers[hn] = "" // recursion guard
		var ps []string
		sub := &specCompiler{g: c.g, env: map[string]string{}, oldEnv: map[string]string{}, scope: map[string]string{}}
		ptypes := map[string]types.Type{}
		for _, p := range sf.Params {
			ps = append(ps, p.Name+" "+p.Type.String())
			sub.env[p.Name] = p.Name
			sub.oldEnv[p.Name] = p.Name
			ptypes[p.Name] = c.g.parseTypeExpr(p.Type)
		}
		sub.g = c.g
		subc := &specFuncCompiler{specCompiler: sub, ptypes: ptypes}
		body := subc.compileBody(sf.Body)
		rt := "bool"
		if !sf.Pred {
			rt = sf.Result.String()
		}
		c.g.helpers[hn] = fmt.Sprintf("func %s(%s) %s {\n\treturn %s(%s)\n}\n", hn, strings.Join(ps, ", "), rt, rt, body)
	}
	var args []string
	for i, a := range e.Args {
		s, t := c.expr(a)
		if t == nil && i < len(sf.Params) {
			s = sf.Params[i].Type.String() + "(" + s + ")"
		}
		args = append(args, s)
	}
	var rt types.Type = types.Typ[types.Bool]
	if !sf.Pred {
		rt = c.g.parseTypeExpr(sf.Result)
	}
	return hn + "(" + strings.Join(args, ", ") + ")", rt
}

// specFuncCompiler compiles the body of a spec function, where names are its parameters.
type specFuncCompiler struct {
	*specCompiler
	ptypes map[string]types.Type
}

func (s *specFuncCompiler) compileBody(e spec.Expr) string {
	s.g.paramTypes = append(s.g.paramTypes, s.ptypes)
	defer func() { s.g.paramTypes = s.g.paramTypes[:len(s.g.paramTypes)-1] }()
	return s.compile(e)
}

func (g *replayGen) parseTypeExpr(t *spec.TypeExpr) types.Type {
	switch t.Kind {
	case "slice":
		return types.NewSlice(g.parseTypeExpr(t.Elem))
	case "ptr":
		return types.NewPointer(g.parseTypeExpr(t.Elem))
	}
	if t.Name == "byte" {
		return types.Typ[types.Uint8]
	}
	for _, b := range types.Typ {
		if b != nil && b.Name() == t.Name {
			return b
		}
	}
	if o := g.pkg.Scope().Lookup(t.Name); o != nil {
		return o.Type()
	}
	failReplay("type %s in a spec function", t)
	return nil
}
