package main

import (
	"govc/vc"
)

// genReplay: placeholder until the model-to-test generator is in place.
func genReplay(r *propRun, s *vc.ObSummary, rep map[string]any) {
	rep["replay_note"] = "no model-to-test translation for this obligation kind yet"
}

func runOverlayTest(pkgDir, testName, src string) (string, bool, error) {
	return "", false, nil
}
