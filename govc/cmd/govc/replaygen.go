package main

import (
	"encoding/json"
	"fmt"
	"os"
	osexec "os/exec"
	"path/filepath"
	"strings"

	"govc/vc"
)

// scenario replays: for obligations about monitors (schedules) the counterexample is a state of the
// shared object, not an input; the replay is a scheduled scenario written once per obligation under
// /verif/scenarios/<property>/<obligation>.go and run against the real code through `go test -overlay`.
// The scenario fails iff the real code reaches a state that violates the obligation.

func scenarioFile(prop, ob string) string {
	return filepath.Join(verifRoot, "scenarios", prop, sanitizeFile(ob)+".go")
}

// genReplay attaches a replay to a failed obligation when one is available.
func genReplay(r *propRun, s *vc.ObSummary, rep map[string]any) {
	sf := scenarioFile(r.cfg.ID, s.Ob)
	if b, err := os.ReadFile(sf); err == nil {
		pkgDir := pkgDirOf(r, s)
		rep["test_source"] = string(b)
		rep["test_name"] = "TestGovcReplay"
		rep["package_dir"] = pkgDir
		rep["replay_kind"] = "scheduled scenario built from the solver's counterexample state (" + sf + ")"
		out, failed, err := runOverlayTest(pkgDir, "TestGovcReplay", string(b))
		rep["replay_output"] = tail(out, 4000)
		if err != nil {
			rep["replay_error"] = err.Error()
		}
		rep["reproduced"] = failed && err == nil && (strings.Contains(out, "REPRODUCED") || strings.Contains(out, "FOUND"))
		return
	}
	if genModelReplay(r, s, rep) {
		return
	}
	// a bounded search for a failing input on the real code, where the property has one
	short := s.Ob
	if i := strings.Index(short, "."); i >= 0 {
		short = short[:i]
	}
	ssf := filepath.Join(verifRoot, "scenarios", r.cfg.ID, "_search."+short+".go")
	if b, err := os.ReadFile(ssf); err == nil {
		pkgDir := pkgDirOf(r, s)
		rep["test_source"] = string(b)
		rep["test_name"] = "TestGovcReplay"
		rep["package_dir"] = pkgDir
		rep["replay_kind"] = "bounded search for a failing input on the real code (" + ssf + "); the solver's counterexample itself is over abstract element types and is attached as solver output"
		out, failed, err := runOverlayTest(pkgDir, "TestGovcReplay", string(b))
		rep["replay_output"] = tail(out, 4000)
		if err != nil {
			rep["replay_error"] = err.Error()
		}
		rep["reproduced"] = failed && err == nil && (strings.Contains(out, "REPRODUCED") || strings.Contains(out, "FOUND"))
		return
	}
	rep["replay_note"] = "no replay available for this obligation: the verifier's output is attached"
}

func pkgDirOf(r *propRun, s *vc.ObSummary) string {
	// the directory of the file the failed obligation points into (two packages may share a name:
	// pkg/basictl and its copy internal/vkgo/pkg/basictl)
	if s.Worst != nil && s.Worst.Q != nil && s.Worst.Q.Pos.Filename != "" {
		return filepath.Dir(s.Worst.Q.Pos.Filename)
	}
	// obligation names start with the short package name; find the loaded package with that name
	short := s.Ob
	if i := strings.Index(short, "."); i >= 0 {
		short = short[:i]
	}
	for _, pk := range r.prog.Pkgs {
		if pk.Name == short || strings.HasSuffix(pk.PkgPath, "/"+short) {
			if len(pk.GoFiles) > 0 {
				return filepath.Dir(pk.GoFiles[0])
			}
		}
	}
	return ""
}

func tail(s string, n int) string {
	if len(s) > n {
		return s[len(s)-n:]
	}
	return s
}

// runOverlayTest runs an in-package test against the real code without writing into /repo.
// failed = the test ran and failed (the obligation is violated by the real code).
func runOverlayTest(pkgDir, testName, src string) (string, bool, error) {
	return runOverlayTestV(pkgDir, testName, src, "govc_replay_test.go")
}

func runOverlayTestV(pkgDir, testName, src, fileName string) (string, bool, error) {
	return runOverlayTestWith(pkgDir, testName, src, fileName, nil)
}

// runOverlayTestWith additionally replaces source files (mutants: path -> content).
func runOverlayTestWith(pkgDir, testName, src, fileName string, extra map[string][]byte) (string, bool, error) {
	if pkgDir == "" {
		return "", false, fmt.Errorf("package directory unknown")
	}
	work, err := os.MkdirTemp(filepath.Join(verifRoot, ".work"), "replay")
	if err != nil {
		_ = os.MkdirAll(filepath.Join(verifRoot, ".work"), 0o755)
		work, err = os.MkdirTemp(filepath.Join(verifRoot, ".work"), "replay")
		if err != nil {
			return "", false, err
		}
	}
	defer os.RemoveAll(work)
	tf := filepath.Join(work, fileName)
	if err := os.WriteFile(tf, []byte(src), 0o644); err != nil {
		return "", false, err
	}
	repl := map[string]string{filepath.Join(pkgDir, fileName): tf}
	n := 0
	for path, content := range extra {
		n++
		ef := filepath.Join(work, fmt.Sprintf("extra%d_%s", n, filepath.Base(path)))
		if err := os.WriteFile(ef, content, 0o644); err != nil {
			return "", false, err
		}
		repl[path] = ef
	}
	ov := map[string]any{"Replace": repl}
	ob, _ := json.Marshal(ov)
	ovf := filepath.Join(work, "overlay.json")
	_ = os.WriteFile(ovf, ob, 0o644)
	cmd := osexec.Command("go", "test", "-overlay", ovf, "-vet=off", "-count=1", "-v", "-timeout", "300s", "-run", "^"+testName+"$", ".")
	cmd.Dir = pkgDir
	cmd.Env = vc.GoEnv()
	out, err := cmd.CombinedOutput()
	s := string(out)
	if err == nil {
		return s, false, nil
	}
	if strings.Contains(s, "--- FAIL") || strings.Contains(s, "panic:") {
		return s, true, nil
	}
	return s, false, fmt.Errorf("go test did not run the replay: %v", err)
}
