package main

import "regexp"

// PropCfg says which contracts (and which of their obligations) decide a property.
type PropCfg struct {
	ID        string
	Pkgs      []string          // package patterns (relative to the module root)
	Funcs     string            // regexp over contract keys ("" = all contracts of the packages); lemmas are "lemma <name>"
	Obs       string            // optional regexp over obligation names that belong to this property
	Scope     string            // what is and is not covered (for partial claims)
	Unverified []string         // named parts of the property that are not decided here
	Bounded   []BoundedPart
	re, obre  *regexp.Regexp
	Mirrors   []Mirror
	match     func(string) bool // overrides re (selftest: property functions restricted to the mutated ones)
}

// selects: the contract key (function, "lemma <name>", "directives") belongs to this run.
func (c *PropCfg) selects(key string) bool {
	if c.match != nil {
		return c.match(key)
	}
	return c.re == nil || c.re.MatchString(key)
}

// Mirror: package Pkg contains byte-identical copies of Files of package Of. While that holds
// (checked on every run) the contracts and therefore the verification conditions are the same
// text, and only Of is verified; as soon as a file differs both packages are verified.
type Mirror struct {
	Pkg, Of string
	Files   []string
}

var basictlMirror = []Mirror{{Pkg: "./internal/vkgo/pkg/basictl", Of: "./pkg/basictl", Files: []string{"basictl.go", "basictl2.go", "verif_contracts.go"}}}

func init() {
	for _, p := range props {
		switch p.ID {
		case "C33", "C02", "C08", "C13":
			p.Mirrors = basictlMirror
		}
	}
}

// BoundedPart: a bounded check of one function on the real code that stands in for a function the
// verifier cannot take (never counted as proved). File is under /verif/bounded/<property>/ and
// contains TestGovcBounded, injected into PkgDir through a go test overlay.
type BoundedPart struct {
	Name   string
	Func   string // obligation prefix: pkg.Func
	File   string
	PkgDir string // relative to the module root
	Bound  string
}

var props = []*PropCfg{
	{
		ID:   "C33",
		Pkgs: []string{"./pkg/basictl", "./internal/vkgo/pkg/basictl"},
		Funcs: `^(Nat|Int|Long|Float|Double|Uint64|Byte|ByteBool|MaybeBool|nat64|String(Read|Write)|TL2|Skip|VectorBit|paddingLen|ReadBool|CheckLengthSanity|lemma tl)`,
		Scope: "all TL1/TL2 primitive codecs of pkg/basictl and of the copy linked by pkg/rpc (internal/vkgo/pkg/basictl)",
	},
	{
		ID:    "C02",
		Pkgs:  []string{"./pkg/basictl", "./internal/vkgo/pkg/basictl"},
		Funcs: `^(StringRead|StringReadBytes|ReadBool|NatReadExactTag|NatReadTag|lemma tl1Deterministic|lemma tl1RoundTrip)$`,
		Obs:   `#(post\.(acceptsExactlyCanonical|value|consumed|onlyTwoTags|exact)|behavior\.(nonminimal|badPadding)|lemma|cover)`,
		Scope: "library half: string length forms, string padding, boolean tags, exact tags; re-writing the decoded value reproduces the accepted bytes (tl1Deterministic + tl1RoundTrip)",
		Unverified: []string{"unknown constructor tag dispatch of generated unions (qt_union.qtpl)", "dictionary re-sorting", "every generated reader"},
	},
	{
		ID:    "C08",
		Pkgs:  []string{"./pkg/basictl", "./internal/vkgo/pkg/basictl"},
		Funcs: `^(Nat|Int|Long|Float|Double|Uint64|Byte|ByteBool)Read|^(StringRead|StringReadBytes|NatPeekTag|NatReadTag|NatReadExactTag|ReadBool|CheckLengthSanity|TL2ParseSize|TL2ReadSize|StringReadTL2|StringReadTL2Bytes|SkipSizedValue|SkipFixedSizedValue|VectorBitContentReadTL2|ByteReadTL2)$`,
		Obs:   `#(index|slice|nil|make|div|shift|panic|loop\d+\.decreases|post\.allocation|post\.exact|call\[\d+\]\.pre|cover)`,
		Scope: "library readers: no panic (every index, slice, nil, make obligation), loops terminate, allocation bounded by the input length, CheckLengthSanity exact",
		Unverified: []string{"generated readers (TL1, TL2, JSON, transcoders)", "that generated vector readers call CheckLengthSanity"},
	},
	{
		ID:    "C13",
		Pkgs:  []string{"./pkg/basictl", "./internal/vkgo/pkg/basictl"},
		Funcs: `^(TL2ParseSize|TL2ReadSize|SkipSizedValue|SkipFixedSizedValue|StringReadTL2|StringReadTL2Bytes|lemma tl2)`,
		Scope: "library half: every size form (minimal or not) decodes to the same number, oversize declarations are rejected, skipping consumes exactly the declared bytes, never panics",
		Unverified: []string{"object body slicing, presence masks and trailing-field tolerance of generated InternalReadTL2 (qt_struct.qtpl)"},
	},
}

func init() {
	props = append(props, &PropCfg{
		ID:    "C39",
		Pkgs:  []string{"./pkg/rpc"},
		Funcs: `^(\(\*workerPool\)\.(Get|Put|GC|gcLocked|Close|Created)|directives)$`,
		Scope: "worker limit: workerPool is verified as a monitor (all schedules): created <= create holds whenever its lock is free and every store to created respects it; request memory: the server applies only TryAcquire/Acquire/Release/Observe to reqMemSem (package-wide SSA scan), so the semaphore's no-over-admission guarantee (C42) bounds the accounted request memory by the limit",
		Unverified: []string{"that each worker goroutine runs one handler at a time and that synchronous handlers are outside the worker limit by design", "that every request-memory acquisition is released on every teardown path", "that acquireRequestSema accounts exactly the bytes of the request (arguments are passed through unchanged: by inspection, not proved)"},
	})
	props = append(props, &PropCfg{
		ID:    "C42",
		Pkgs:  []string{"./internal/vkgo/pkg/semaphore"},
		Funcs: `^\(\*Weighted\)\.(Acquire|TryAcquire|Release|ForceAcquire|SetSize|Observe|notifyWaiters)$`,
		Scope: "safety form for all schedules (monitor rule): lock discipline; no store to cur outside ForceAcquire pushes it above size; with the lock free the first waiter never fits (no lost wake-up)",
		Unverified: []string{"fairness of sync.Mutex and of the Go scheduler (eventual admission is reduced to the quiescent invariant)", "WaitEmpty (reads size without the lock; not among the operations the property quantifies over)"},
	})
	lexScope := "the lexer shared by the TL1 and TL2 parsers (generateTokens, nextToken and every lex* helper, for both language options) and the token iterator the parsers walk with: for every input string no index/slice/nil panic, every loop terminates, the unread text is always the suffix of the input at the current offset (so token positions and the positions of lexer errors lie inside the text), the token list ends with eof, iterators never run off the list and the iterator's own 'no eof token' panic is unreachable"
	lexUnverified := []string{"the recursive-descent parse* functions (about 60; they rest on the iterator contracts proved here but are not under contract themselves)", "the recombination check of ParseTLFile (string concatenation of all tokens equals the input) and ConsolePrint", "positions of the errors validateTokens reports (they are token positions; that all token positions are in range is proved per token when it is cut, not carried as a list invariant)"}
	props = append(props, &PropCfg{
		ID: "C19", Pkgs: []string{"./internal/tlast"}, Funcs: "",
		Scope: "TL1: " + lexScope + "; AND the whole TL1 recursive-descent parser below ParseTLFile (parseCombinator, parseFields, parseField, parseTypeRef and its variants, parseArithmetic..., 25 functions, mutually recursive): every parse function is free of index/slice/nil panics, its internal 'unexpected token' panics are unreachable, and it returns a valid iterator over the same token list at the same or a later position. What the parser needs to know about the text of a token of a given kind (an annotation has at least two bytes, a tag exactly nine) is a value invariant of the token type, proved where the lexer appends a token and assumed where the parser reads one",
		Unverified: []string{"ParseTLFile itself: the recombination check (concatenation of all tokens equals the input) and the slicing of the input by token positions need that token positions are ordered, which is not carried through the token list", "assumed (trusted contracts): parseCommentBefore/parseCommentRight are only called on ranges of white-space tokens; tokens of the kinds lcIdentNS/ucIdentNS contain a dot (splitIdenNSFromToken); Combinator.crc32 and PositionRange.CollapseToEnd are pure", "positions of the errors the parser reports (they are token positions)", "ConsolePrint", "recursion depth"},
	})
	props = append(props, &PropCfg{
		ID: "C20", Pkgs: []string{"./internal/tlast"},
		Funcs: `^(\(\*lexer\)\.|\(\*tokenIterator\)\.|lowerCase$|upperCase$|digit$|letter$|identChar$|hex$|nameIdent$|builtinIdent$|numberLexeme$|parseErrToken$)`,
		Scope: "TL2 half (LexerLanguage == TL2 is one of the cases of the same functions): " + lexScope, Unverified: append([]string{"tlparser_tl2_code.go (the TL2 recursive-descent parser)"}, lexUnverified[1:]...),
	})
	props = append(props, &PropCfg{
		ID:    "C37",
		Pkgs:  []string{"./pkg/rpc/udp", "./pkg/rpc/internal/gen/internal"},
		Funcs: `^(\(\*AcksToSend\)\.(HaveHoles|BuildAck|BuildNegativeAck)|\(\*NetUdpPacketEncHeader\)\.(SetPacketAckPrefix|ClearPacketAckPrefix|SetPacketAckFrom|SetPacketAckTo|SetPacketAckSet))$`,
		Scope: "header half, proved for every state that satisfies the representation invariant (prefix, then non-empty, sorted, disjoint, non-adjacent ranges; the list of ranges is an owned structure): BuildAck acknowledges only recorded numbers (prefix, first range, explicit set), BuildNegativeAck requests only unrecorded numbers; the generated header setters they call are verified too. Bookkeeping half (AddAckRange keeps the invariant and records exactly the union) only by a BOUNDED exhaustive check",
		Unverified: []string{"AddAckRange beyond the stated bound (it edits the list through two cursors inside a loop: outside the owned-structure model)", "that the ranges in a header cover ALL recorded numbers (headers are truncated at MaxAckSet by design)"},
		Bounded: []BoundedPart{{Name: "AddAckRange vs. reference set", Func: "udp.(*AcksToSend).AddAckRange", File: "acks_bounded.go", PkgDir: "pkg/rpc/udp",
			Bound: "all sequences of <= 4 ranges over 0..6 and of <= 3 ranges over 0..9 (806,875 sequences); after each step: representation invariant, acknowledged set == recorded set, headers consistent"}},
	})
	props = append(props, &PropCfg{
		ID:    "C24",
		Pkgs:  []string{"./internal/pure"},
		Funcs: `^\(\*Kernel\)\.checkTagCollisions$`,
		Scope: "the tag check of the schema kernel (Kernel.checkTagCollisions, the only place where constructor tags are compared), TL1 half: if it returns no error then every TL1 combinator of every file has a non-zero tag and no two TL1 combinators - of the same or of different files - share a tag, for any number of files and combinators (the map of seen tags is modelled exactly)",
		Unverified: []string{"the same for the magics of TL2 declarations (third loop of the function): its obligations range over an array of large nested records and do not discharge within the quick budget, so they are not claimed", "that Kernel.Compile stops on the error (one `if err := k.checkTagCollisions(); err != nil { return err }`, by inspection)", "that Combinator.Crc32 computes the documented CRC32 of the canonical form (C23) - it is used here as a function of the combinator", "tags of types instantiated from templates (they reuse the tag of their combinator)"},
	})
	props = append(props, &PropCfg{
		ID:    "C30",
		Pkgs:  []string{"./internal/tlcodegen", "./internal/tlast"},
		Funcs: `^(BeautifulError2|checkCombinatorsBackwardCompatibility(\$\d+)?|CheckBackwardCompatibility\$1)$`,
		Bounded: []BoundedPart{{Name: "name resolution of the comparison (maps from names to positions)", Func: "tlcodegen.checkCombinatorsBackwardCompatibility$2", File: "names_bounded.go", PkgDir: "internal/tlcodegen",
			Bound: "four combinator shapes (two type parameters with four references, two numeric parameters with two references, a function result referring to an argument, two field masks); every re-pointing of every reference combined with every declaration order (52 variants, 44 of them unsafe): each unsafe variant must be rejected"},
			{Name: "exemption of the first appended function argument (new # mask)", Func: "tlcodegen.checkCombinatorsBackwardCompatibility", File: "funcargs_bounded.go", PkgDir: "internal/tlcodegen",
				Bound: "three old functions (no # argument, unused # argument, # argument used as mask) and every sequence of 1..3 appended arguments over {unmasked non-#, unmasked #, masked by the new #, masked by the old # on a free bit, masked by the old # on the used bit} (137 variants, 106 of them certainly unsafe): each unsafe variant must be rejected"}},
		Scope: "the comparison of two versions of one combinator (checkCombinatorsBackwardCompatibility with its closures compareTypes and fillMapping) and the bare-use check of CheckBackwardCompatibility (closure checkBoxUsage). Proved for all inputs: (1) totality - no index, nil or slice panic for type references of any depth; (2) whenever the pair is ACCEPTED: no field and no template argument was removed; every old field keeps the shape of its type at every depth (same bareness, no type argument removed, same kind and numeric value of every old argument - recursive predicate sameShape), keeps or lacks its field mask as before and keeps its mask bit; every appended field has a field mask whose bit passed checkIsSelectedBitAvailable for THAT field (for functions: every appended field but possibly the first, which may be the new mask itself); a function keeps the shape of its result type; (3) whenever checkBoxUsage accepts a type reference, the reference does not use the type that turned into a union bare, nor its constructor, at any depth and in any argument position (recursive predicate bareUse)",
		Unverified: []string{"name resolution inside compareTypes (the maps from names to field/template positions escape into a closure and are not modelled: that two references name the same type, and that a field mask names the same field, is not part of sameShape/fieldKept) - only a BOUNDED check on the real code stands in for it", "CheckBackwardCompatibility itself (pairing constructors and functions of the two schemas by name through maps; removal of a constructor or function)", "checkIsSelectedBitAvailable / getUsedBitsForFieldMask (nested maps of usage tables): its verdict is named bitFree by a trusted contract; what is proved is that it is asked about every appended field and that its precondition (the field has a mask) holds", "checkNatUsages, extractTypes, checkAllTypeRefs", "termination of the recursion over type references (finite, acyclic syntax trees are assumed; the recursive predicates are monotone, so the definitions are consistent also without that)"},
	})
	props = append(props, &PropCfg{
		ID:    "C41",
		Pkgs:  []string{"./internal/vkgo/pkg/algo"},
		Funcs: "",
		Scope: "CircularSlice[T]: representation invariant and FIFO/indexing view for every method (PushBack, PopFront, Front, Index, IndexRef, Slices, Reserve, Clear, DeepAssign, Swap, Len, Cap), generic in T. AVL tree (TreeNode[T], generic in T, comparator and allocator): the tree is a value of a recursive datatype (ownership discipline checked); rotations, repairBalance, insert, remove, extractMin keep the AVL shape (stored heights exact, sibling heights differ by at most one) for trees of any size",
	})
}

func findProp(id string) *PropCfg {
	for _, p := range props {
		if p.ID == id {
			if p.Funcs != "" {
				p.re = regexp.MustCompile(p.Funcs)
			}
			if p.Obs != "" {
				p.obre = regexp.MustCompile(p.Obs)
			}
			return p
		}
	}
	return nil
}
