package main

import "govc/vc"

// genModelReplay: model-to-test translation for functions over scalars, byte slices and strings.
// Returns false when no replay could be produced.
func genModelReplay(r *propRun, s *vc.ObSummary, rep map[string]any) bool {
	return false
}
