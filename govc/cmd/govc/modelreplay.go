package main

import (
	"context"
	"fmt"
	"go/types"
	"math/big"
	"os"
	osexec "os/exec"
	"regexp"
	"sort"
	"strings"
	"time"

	"govc/spec"
	"govc/vc"
)

// Model replay: the solver's counterexample of a failed obligation is turned into a Go test that
// calls the REAL function on the model's input and evaluates the failed clause of the contract,
// compiled mechanically from the contract text to Go (the contract language is Go expressions plus
// ==>, <==>, bounded quantifiers, old(), ?:). The test is injected with `go test -overlay`.
//
// Supported: functions and methods whose parameters are integers, booleans, floats (bit patterns),
// strings, slices of those, and pointers to such values or to structs made of them; obligations of
// kind post / behavior / lemma (clause compiled and evaluated) and the run-time safety kinds
// (the replay succeeds iff the real code panics). Everything else: no replay, and the VIOLATION
// line says no-failing-input-found.

const maxReplayLen = 48

type replayGen struct {
	r        *propRun
	prog     *vc.Prog
	c        *vc.Contract
	pkg      *types.Package
	helpers  map[string]string // spec functions compiled to Go
	imports  map[string]bool
	unknown  []string // clauses that could not be compiled
	values   map[string]string
	skipNote []string
	paramTypes []map[string]types.Type
}

type unsupportedReplay struct{ why string }

func failReplay(f string, a ...any) { panic(unsupportedReplay{fmt.Sprintf(f, a...)}) }

func genModelReplay(r *propRun, s *vc.ObSummary, rep map[string]any) (ok bool) {
	defer func() {
		if e := recover(); e != nil {
			if u, is := e.(unsupportedReplay); is {
				rep["replay_note"] = "no model replay: " + u.why
				ok = false
				return
			}
			rep["replay_note"] = fmt.Sprintf("no model replay: internal error %v", e)
			ok = false
		}
	}()
	o := s.Worst
	if o == nil || o.File == "" || o.Q == nil {
		return false
	}
	if _, err := os.Stat(o.File); err != nil {
		return false
	}
	g := &replayGen{r: r, prog: r.prog, helpers: map[string]string{}, imports: map[string]bool{"testing": true}, values: map[string]string{}}
	hash := strings.Index(s.Ob, "#")
	if hash < 0 {
		return false
	}
	what := s.Ob[hash+1:]
	fkey := o.Q.Func
	src := ""
	if strings.HasPrefix(fkey, "lemma ") {
		failReplay("lemma obligations are not replayed (no code is executed)")
	}
	for _, pk := range r.prog.Pkgs {
		for _, c := range r.prog.Functions(pk.PkgPath) {
			if c.C.Key() == fkey && strings.HasPrefix(s.Ob, pkgShortName(pk.PkgPath)+".") {
				g.c = c
				g.pkg = pk.Types
			}
		}
	}
	if g.c == nil {
		failReplay("contract of %s not found", fkey)
	}
	model := g.solveSmall(o)
	src = g.testSource(o, what, model)
	pkgDir := pkgDirOf(r, s)
	rep["test_source"] = src
	rep["test_name"] = "TestGovcReplay"
	rep["package_dir"] = pkgDir
	rep["replay_kind"] = "solver model (inputs bounded to length " + fmt.Sprint(maxReplayLen) + ") run on the real function; clause compiled from the contract"
	rep["model_values"] = g.values
	if len(g.skipNote) > 0 {
		rep["replay_skipped_clauses"] = g.skipNote
	}
	out, failed, err := runOverlayTest(pkgDir, "TestGovcReplay", src)
	rep["replay_output"] = tail(out, 4000)
	if err != nil {
		rep["replay_error"] = err.Error()
	}
	rep["reproduced"] = failed && err == nil && !strings.Contains(out, "INCONCLUSIVE")
	return true
}

func pkgShortName(path string) string {
	if i := strings.LastIndex(path, "/"); i >= 0 {
		return path[i+1:]
	}
	return path
}

// ---- model extraction

type inputTerm struct {
	name string // Go-side name
	smt  string // SMT-LIB term to evaluate
}

var declRe = regexp.MustCompile(`\(declare-const (\S+) `)

// solveSmall re-solves the failed query with the inputs bounded to small sizes and reads the
// values of the inputs' leaves.
func (g *replayGen) solveSmall(o *vc.Outcome) map[string]*big.Int {
	b, err := os.ReadFile(o.File)
	if err != nil {
		failReplay("query file gone")
	}
	txt := string(b)
	declared := map[string]bool{}
	for _, m := range declRe.FindAllStringSubmatch(txt, -1) {
		declared[m[1]] = true
	}
	i := strings.LastIndex(txt, "(check-sat)")
	if i < 0 {
		failReplay("no check-sat in query")
	}
	head := txt[:i]
	var extra []string
	var want []string
	add := func(term string) { want = append(want, term) }
	heapByte := "A$__BitVec8_!g0"
	for _, in := range o.Q.Inputs {
		base := "in$" + sanitizeIdent(in.Name)
		switch {
		case strings.HasPrefix(in.Type, "[]"):
			for _, f := range []string{"sl-ref", "sl-off", "sl-len", "sl-cap"} {
				if !declared[base+"."+f] {
					continue
				}
				add(base + "." + f)
			}
			if declared[base+".sl-len"] {
				extra = append(extra, fmt.Sprintf("(assert (bvule %s.sl-len #x%016x))", base, maxReplayLen))
			}
			if declared[base+".sl-cap"] {
				extra = append(extra, fmt.Sprintf("(assert (bvule %s.sl-cap #x%016x))", base, 2*maxReplayLen))
			}
			if in.Type == "[]byte" || in.Type == "[]uint8" {
				if declared[heapByte] && declared[base+".sl-ref"] && declared[base+".sl-off"] {
					for k := 0; k < maxReplayLen; k++ {
						add(fmt.Sprintf("(select (select %s %s.sl-ref) (bvadd %s.sl-off #x%016x))", heapByte, base, base, k))
					}
				}
			}
			if in.Type == "[]bool" {
				hb := "A$Bool!g0"
				if declared[hb] && declared[base+".sl-ref"] && declared[base+".sl-off"] {
					for k := 0; k < maxReplayLen; k++ {
						add(fmt.Sprintf("(select (select %s %s.sl-ref) (bvadd %s.sl-off #x%016x))", hb, base, base, k))
					}
				}
			}
		case in.Type == "string":
			if declared[base+".str-len"] {
				add(base + ".str-len")
				extra = append(extra, fmt.Sprintf("(assert (bvule %s.str-len #x%016x))", base, maxReplayLen))
			}
			if declared[base+".str-arr"] && declared[base+".str-off"] {
				for k := 0; k < maxReplayLen; k++ {
					add(fmt.Sprintf("(select %s.str-arr (bvadd %s.str-off #x%016x))", base, base, k))
				}
			}
		case strings.HasPrefix(in.Type, "*"):
			if declared[base] {
				add(base)
				// pointee cells of scalar types
				for _, hp := range []string{"H$__BitVec8_!g0", "H$__BitVec16_!g0", "H$__BitVec32_!g0", "H$__BitVec64_!g0", "H$Bool!g0"} {
					if declared[hp] {
						add(fmt.Sprintf("(select %s %s)", hp, base))
					}
				}
			}
		default:
			if declared[base] {
				add(base)
			}
		}
	}
	if len(want) == 0 {
		return map[string]*big.Int{}
	}
	q := head + strings.Join(extra, "\n") + "\n(check-sat)\n(get-value (" + strings.Join(want, " ") + "))\n"
	f := o.File + ".replay.smt2"
	_ = os.WriteFile(f, []byte(q), 0o644)
	defer os.Remove(f)
	ctx, cancel := context.WithTimeout(context.Background(), 30*time.Second)
	defer cancel()
	out, _ := osexec.CommandContext(ctx, "z3-new", "-smt2", "-T:25", f).CombinedOutput()
	s := string(out)
	if !strings.HasPrefix(strings.TrimSpace(s), "sat") {
		failReplay("no small model (inputs bounded to length %d): solver said %s", maxReplayLen, strings.TrimSpace(firstLineOf(s)))
	}
	vals := parseGetValue(s[strings.Index(s, "\n")+1:])
	if len(vals) != len(want) {
		failReplay("could not parse the model (%d of %d values)", len(vals), len(want))
	}
	m := map[string]*big.Int{}
	for i, w := range want {
		m[w] = vals[i]
		if len(w) < 60 {
			g.values[w] = vals[i].String()
		}
	}
	return m
}

func sanitizeIdent(s string) string {
	var sb strings.Builder
	for _, c := range s {
		switch {
		case c >= 'a' && c <= 'z', c >= 'A' && c <= 'Z', c >= '0' && c <= '9', c == '_':
			sb.WriteRune(c)
		case c == '.', c == '/':
			sb.WriteRune('_')
		default:
			sb.WriteString("_")
		}
	}
	return sb.String()
}

// parseGetValue parses ((t v) (t v) ...) and returns the values in order.
func parseGetValue(s string) []*big.Int {
	var out []*big.Int
	// tokenise s-expressions
	depth := 0
	start := -1
	var pairs []string
	for i, c := range s {
		switch c {
		case '(':
			depth++
			if depth == 2 {
				start = i
			}
		case ')':
			if depth == 2 && start >= 0 {
				pairs = append(pairs, s[start:i+1])
				start = -1
			}
			depth--
		}
	}
	for _, p := range pairs {
		// value = last atom or (- n)
		p = strings.TrimSpace(p[1 : len(p)-1])
		var v string
		if strings.HasSuffix(p, ")") {
			j := strings.LastIndex(p, "(")
			v = p[j:]
		} else {
			j := strings.LastIndexAny(p, " \t\n")
			v = p[j+1:]
		}
		n := new(big.Int)
		switch {
		case strings.HasPrefix(v, "#x"):
			n.SetString(v[2:], 16)
		case strings.HasPrefix(v, "#b"):
			n.SetString(v[2:], 2)
		case v == "true":
			n.SetInt64(1)
		case v == "false":
			n.SetInt64(0)
		case strings.HasPrefix(v, "(-"):
			n.SetString(strings.TrimSpace(strings.TrimSuffix(strings.TrimPrefix(v, "(-"), ")")), 10)
			n.Neg(n)
		default:
			if _, ok := n.SetString(v, 10); !ok {
				return nil
			}
		}
		out = append(out, n)
	}
	return out
}

// ---- test generation

func (g *replayGen) goLiteral(in vc.NamedTerm, t types.Type, model map[string]*big.Int) (decl string) {
	base := "in$" + sanitizeIdent(in.Name)
	name := goName(in.Name)
	get := func(k string) *big.Int {
		if v, ok := model[k]; ok {
			return v
		}
		return new(big.Int)
	}
	intLit := func(v *big.Int, bt *types.Basic) string {
		w := 64
		switch bt.Kind() {
		case types.Int8, types.Uint8:
			w = 8
		case types.Int16, types.Uint16:
			w = 16
		case types.Int32, types.Uint32:
			w = 32
		}
		x := new(big.Int).Set(v)
		if bt.Info()&types.IsUnsigned == 0 && x.Bit(w-1) == 1 {
			x.Sub(x, new(big.Int).Lsh(big.NewInt(1), uint(w)))
		}
		return fmt.Sprintf("%s(%s)", bt.Name(), x.String())
	}
	switch u := t.Underlying().(type) {
	case *types.Basic:
		switch {
		case u.Info()&types.IsInteger != 0:
			return fmt.Sprintf("%s := %s", name, intLit(get(base), u))
		case u.Info()&types.IsBoolean != 0:
			return fmt.Sprintf("%s := %v", name, get(base).Sign() != 0)
		case u.Info()&types.IsString != 0:
			n := int(get(base + ".str-len").Int64())
			var bs []string
			for k := 0; k < n && k < maxReplayLen; k++ {
				bs = append(bs, get(fmt.Sprintf("(select %s.str-arr (bvadd %s.str-off #x%016x))", base, base, k)).String())
			}
			return fmt.Sprintf("%s := string([]byte{%s})", name, strings.Join(bs, ", "))
		case u.Kind() == types.Float32:
			g.imports["math"] = true
			return fmt.Sprintf("%s := math.Float32frombits(%d)", name, get(base).Uint64())
		case u.Kind() == types.Float64:
			g.imports["math"] = true
			return fmt.Sprintf("%s := math.Float64frombits(%d)", name, get(base).Uint64())
		}
	case *types.Slice:
		eb, ok := u.Elem().Underlying().(*types.Basic)
		if !ok {
			failReplay("slice of %s", u.Elem())
		}
		n := int(get(base + ".sl-len").Int64())
		cp := int(get(base + ".sl-cap").Int64())
		if cp < n {
			cp = n
		}
		if get(base+".sl-ref").Sign() == 0 && n == 0 {
			return fmt.Sprintf("var %s %s", name, types.TypeString(t, qualifier(g.pkg)))
		}
		var es []string
		for k := 0; k < n && k < maxReplayLen; k++ {
			var key string
			switch {
			case eb.Kind() == types.Uint8:
				key = fmt.Sprintf("(select (select A$__BitVec8_!g0 %s.sl-ref) (bvadd %s.sl-off #x%016x))", base, base, k)
				es = append(es, get(key).String())
			case eb.Info()&types.IsBoolean != 0:
				key = fmt.Sprintf("(select (select A$Bool!g0 %s.sl-ref) (bvadd %s.sl-off #x%016x))", base, base, k)
				es = append(es, fmt.Sprint(get(key).Sign() != 0))
			default:
				failReplay("slice of %s", u.Elem())
			}
		}
		ts := types.TypeString(t, qualifier(g.pkg))
		return fmt.Sprintf("%s := append(make(%s, 0, %d), %s{%s}...)", name, ts, cp, ts, strings.Join(es, ", "))
	case *types.Pointer:
		if get(base).Sign() == 0 {
			return fmt.Sprintf("var %s %s", name, types.TypeString(t, qualifier(g.pkg)))
		}
		et := u.Elem()
		ets := types.TypeString(et, qualifier(g.pkg))
		init := ""
		if eb, ok := et.Underlying().(*types.Basic); ok {
			var hp string
			switch {
			case eb.Info()&types.IsBoolean != 0:
				hp = "H$Bool!g0"
			case eb.Info()&types.IsInteger != 0:
				hp = fmt.Sprintf("H$__BitVec%d_!g0", map[types.BasicKind]int{types.Int8: 8, types.Uint8: 8, types.Int16: 16, types.Uint16: 16, types.Int32: 32, types.Uint32: 32}[eb.Kind()])
				if strings.HasSuffix(hp, "BitVec0_!g0") {
					hp = "H$__BitVec64_!g0"
				}
			}
			if v, ok := model[fmt.Sprintf("(select %s %s)", hp, base)]; ok && hp != "" {
				if eb.Info()&types.IsBoolean != 0 {
					init = fmt.Sprintf("; *%s = %v", name, v.Sign() != 0)
				} else {
					init = fmt.Sprintf("; *%s = %s", name, intLit(v, eb))
				}
			}
		}
		return fmt.Sprintf("%s := new(%s)%s", name, ets, init)
	}
	failReplay("parameter %s of type %s", in.Name, t)
	return ""
}

func goName(s string) string {
	s = sanitizeIdent(s)
	return "p_" + s
}

func qualifier(pkg *types.Package) types.Qualifier {
	return func(p *types.Package) string {
		if p == pkg {
			return ""
		}
		return p.Name()
	}
}

func (g *replayGen) testSource(o *vc.Outcome, what string, model map[string]*big.Int) string {
	fn := g.c.Fn
	sig := fn.Signature
	if fn.TypeParams() != nil && fn.TypeParams().Len() > 0 {
		failReplay("generic function")
	}
	var body strings.Builder
	// parameter names as in the contract
	names := []string{}
	if sig.Recv() != nil {
		rn := g.c.C.RecvName
		if rn == "" {
			rn = fn.Params[0].Name()
		}
		names = append(names, rn)
	}
	for i, p := range g.c.C.Params {
		n := p.Name
		if n == "" || n == "_" {
			k := i
			if sig.Recv() != nil {
				k++
			}
			n = fn.Params[k].Name()
		}
		names = append(names, n)
	}
	ptypes := map[string]types.Type{}
	for i, n := range names {
		ptypes[n] = fn.Params[i].Type()
	}
	// inputs (parameters and ghost parameters of behaviours)
	env := map[string]string{}    // spec name -> Go expression (current)
	oldEnv := map[string]string{} // spec name -> Go expression (entry snapshot)
	for _, in := range o.Q.Inputs {
		t, ok := ptypes[in.Name]
		if !ok {
			// ghost input: type from its printed Go type
			t = g.parseType(in.Type)
		}
		body.WriteString("\t" + g.goLiteral(in, t, model) + "\n")
		gn := goName(in.Name)
		sn := in.Name
		if strings.HasPrefix(sn, "ghost_") {
			// ghost_<behavior>_<name> or ghost_<name>
			parts := strings.SplitN(sn, "_", 3)
			sn = parts[len(parts)-1]
		}
		env[sn] = gn
		// entry snapshot
		switch tt := t.Underlying().(type) {
		case *types.Slice:
			body.WriteString(fmt.Sprintf("\to_%s := append(%s(nil), %s...)\n", gn, types.TypeString(t, qualifier(g.pkg)), gn))
			oldEnv[sn] = "o_" + gn
		case *types.Pointer:
			_ = tt
			body.WriteString(fmt.Sprintf("\tvar o_%s %s\n\tif %s != nil {\n\t\tov := *%s\n\t\to_%s = &ov\n\t}\n", gn, types.TypeString(t, qualifier(g.pkg)), gn, gn, gn))
			oldEnv[sn] = "o_" + gn
		default:
			oldEnv[sn] = gn
		}
		body.WriteString("\t_ = " + oldEnv[sn] + "\n")
	}
	// the call
	var args []string
	for _, n := range names {
		if _, ok := env[n]; !ok {
			failReplay("no model value for parameter %s", n)
		}
		args = append(args, env[n])
	}
	var rnames []string
	res := sig.Results()
	for i := 0; i < res.Len(); i++ {
		rn := fmt.Sprintf("r_%d", i)
		rnames = append(rnames, rn)
		sn := ""
		if i < len(g.c.C.Results) && g.c.C.Results[i].Name != "" {
			sn = g.c.C.Results[i].Name
		} else if res.At(i).Name() != "" {
			sn = res.At(i).Name()
		}
		if sn != "" && sn != "_" {
			env[sn] = rn
		}
		if res.Len() == 1 {
			env["result"] = rn
		}
	}
	callee := fn.Name()
	callArgs := args
	if sig.Recv() != nil {
		callee = args[0] + "." + fn.Name()
		callArgs = args[1:]
	}
	call := fmt.Sprintf("%s(%s)", callee, strings.Join(callArgs, ", "))
	for i := range rnames {
		body.WriteString(fmt.Sprintf("\tvar %s %s\n", rnames[i], types.TypeString(res.At(i).Type(), qualifier(g.pkg))))
	}
	if len(rnames) > 0 {
		call = strings.Join(rnames, ", ") + " = " + call
	}
	g.imports["fmt"] = true
	body.WriteString("\tpanicked := func() (p any) {\n\t\tdefer func() { p = recover() }()\n\t\t" + call + "\n\t\treturn nil\n\t}()\n")
	for _, rn := range rnames {
		body.WriteString("\t_ = " + rn + "\n")
	}
	kind := what
	if i := strings.IndexAny(kind, ".["); i >= 0 {
		kind = kind[:i]
	}
	switch kind {
	case "index", "slice", "nil", "div", "shift", "panic", "make", "typeassert":
		body.WriteString("\tif panicked != nil {\n\t\tt.Fatalf(\"REPRODUCED: the real function panics on the model input: %v\", panicked)\n\t}\n")
		body.WriteString("\tt.Log(\"the real function does not panic on this input\")\n")
	case "post", "behavior":
		body.WriteString("\tif panicked != nil {\n\t\tt.Fatalf(\"REPRODUCED (as a panic): %v\", panicked)\n\t}\n")
		clause, assumes := g.findClause(what)
		if clause == nil {
			failReplay("clause %s not found", what)
		}
		cc := &specCompiler{g: g, env: env, oldEnv: oldEnv, scope: map[string]string{}}
		var cond string
		cexpr := cc.compile(clause.E)
		cond = cexpr
		if len(assumes) > 0 {
			var as []string
			for _, a := range assumes {
				oc := &specCompiler{g: g, env: oldEnv, oldEnv: oldEnv, scope: map[string]string{}}
				as = append(as, "("+oc.compile(a.E)+")")
			}
			cond = "!(" + strings.Join(as, " && ") + ") || (" + cexpr + ")"
		}
		body.WriteString("\tholds, evalPanic := func() (ok bool, p any) {\n\t\tdefer func() { p = recover() }()\n\t\treturn " + cond + ", nil\n\t}()\n")
		body.WriteString("\tif evalPanic != nil {\n\t\tt.Fatalf(\"INCONCLUSIVE: the clause cannot be evaluated on this input: %v\", evalPanic)\n\t}\n")
		body.WriteString(fmt.Sprintf("\tif !holds {\n\t\tt.Fatalf(\"REPRODUCED: the real function violates the clause %%s (results %%v)\", %q, []any{%s})\n\t}\n", clause.Text, strings.Join(rnames, ", ")))
	default:
		failReplay("obligations of kind %q are internal to the function (loop invariant, callee precondition, frame): no function-level replay", kind)
	}
	var imps []string
	for i := range g.imports {
		imps = append(imps, i)
	}
	sort.Strings(imps)
	var sb strings.Builder
	sb.WriteString("package " + g.pkg.Name() + "\n\nimport (\n")
	for _, i := range imps {
		sb.WriteString("\t\"" + i + "\"\n")
	}
	sb.WriteString(")\n\n")
	sb.WriteString("// generated by govc from the solver model of " + o.Q.Ob + "\n")
	sb.WriteString("func TestGovcReplay(t *testing.T) {\n" + body.String() + "}\n\n")
	var hs []string
	for k := range g.helpers {
		hs = append(hs, k)
	}
	sort.Strings(hs)
	for _, k := range hs {
		sb.WriteString(g.helpers[k] + "\n")
	}
	sb.WriteString(replayRuntime)
	sb.WriteString("\nvar _ = fmt.Sprint\n")
	return sb.String()
}

const replayRuntime = `
func govcSeqEq[T comparable](a, b []T) bool {
	if len(a) != len(b) {
		return false
	}
	for i := range a {
		if a[i] != b[i] {
			return false
		}
	}
	return true
}

func govcSameSlice[T any](a, b []T) bool {
	if len(a) != len(b) || cap(a) != cap(b) {
		return false
	}
	if cap(a) == 0 {
		return true
	}
	return &a[:cap(a)][0] == &b[:cap(b)][0]
}
`

func (g *replayGen) parseType(s string) types.Type {
	switch s {
	case "[]byte", "[]uint8":
		return types.NewSlice(types.Typ[types.Uint8])
	case "[]bool":
		return types.NewSlice(types.Typ[types.Bool])
	case "string":
		return types.Typ[types.String]
	case "bool":
		return types.Typ[types.Bool]
	}
	for _, b := range types.Typ {
		if b != nil && b.Name() == s {
			return b
		}
	}
	failReplay("ghost parameter of type %s", s)
	return nil
}

func (g *replayGen) findClause(what string) (*spec.Clause, []*spec.Clause) {
	c := g.c.C
	if strings.HasPrefix(what, "post") {
		for i, e := range c.Ensures {
			if what == fmt.Sprintf("post[%d]", i) || (e.Label != "" && what == "post."+e.Label) {
				return e, nil
			}
		}
		return nil, nil
	}
	for _, b := range c.Behaviors {
		for i, e := range b.Ensures {
			if what == fmt.Sprintf("behavior.%s[%d]", b.Name, i) {
				return e, b.Assumes
			}
		}
	}
	return nil, nil
}
