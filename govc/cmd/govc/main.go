package main

import (
	"flag"
	"fmt"
	"os"
	"regexp"
	"sort"
	"strings"
	"time"

	"govc/vc"
)

func main() {
	if len(os.Args) < 2 {
		fmt.Fprintln(os.Stderr, "usage: govc verify|check|selftest ...")
		os.Exit(2)
	}
	switch os.Args[1] {
	case "verify":
		verify(os.Args[2:])
	case "check":
		os.Exit(checkMain(os.Args[2:]))
	case "mutant":
		os.Exit(mutantMain(os.Args[2:]))
	case "selftest":
		os.Exit(selftestMain(os.Args[2:]))
	default:
		fmt.Fprintln(os.Stderr, "unknown subcommand", os.Args[1])
		os.Exit(2)
	}
}

func verify(args []string) {
	fs := flag.NewFlagSet("verify", flag.ExitOnError)
	dir := fs.String("dir", "/repo", "module root")
	pkgs := fs.String("pkgs", "./pkg/basictl", "comma separated package patterns")
	funcs := fs.String("funcs", "", "regexp over contract keys")
	timeout := fs.Duration("timeout", 10*time.Second, "per query timeout")
	work := fs.String("work", "/verif/.work/dev", "work directory")
	keep := fs.Bool("keep", false, "keep solver files")
	verbose := fs.Bool("v", false, "verbose")
	jobs := fs.Int("j", 8, "parallel solver jobs")
	fs.Parse(args)
	t0 := time.Now()
	prog, err := vc.Load(vc.LoadConfig{Dir: *dir, Patterns: strings.Split(*pkgs, ",")})
	if err != nil {
		fmt.Fprintln(os.Stderr, "load:", err)
		os.Exit(2)
	}
	fmt.Printf("loaded in %.1fs\n", time.Since(t0).Seconds())
	for _, e := range prog.BindErrors {
		fmt.Println("BIND ERROR:", e)
	}
	var re *regexp.Regexp
	if *funcs != "" {
		re = regexp.MustCompile(*funcs)
	}
	var all []*vc.Query
	for _, pk := range prog.Pkgs {
		for _, c := range prog.Functions(pk.PkgPath) {
			if c.C.Trusted {
				continue
			}
			if re != nil && !re.MatchString(c.C.Key()) {
				continue
			}
			res := prog.VerifyFunc(c)
			if res.Unsupported != "" {
				fmt.Printf("NOT VERIFIED %s: %s\n", res.Key, res.Unsupported)
				continue
			}
			fmt.Printf("%s: %d paths, %d loops, %d queries\n", res.Key, res.Paths, res.Loops, len(res.Queries))
			for _, n := range res.Notes {
				fmt.Println("   note:", n)
			}
			all = append(all, res.Queries...)
		}
	}
	for _, pk := range prog.Pkgs {
		for _, ld := range prog.Lemmas[pk.PkgPath] {
			if re != nil && !re.MatchString("lemma "+ld.L.Name) {
				continue
			}
			res := prog.VerifyLemma(ld)
			if res.Unsupported != "" {
				fmt.Printf("NOT VERIFIED %s: %s\n", res.Key, res.Unsupported)
				continue
			}
			fmt.Printf("%s: %d queries\n", res.Key, len(res.Queries))
			all = append(all, res.Queries...)
		}
	}
	t1 := time.Now()
	outs := prog.SolveAll(all, vc.SolveConfig{WorkDir: *work, Timeout: *timeout, Jobs: *jobs, Keep: *keep})
	sums := vc.Summarise(outs)
	bad := 0
	for _, s := range sums {
		if s.Status == "proved" || s.Status == "covered" {
			if *verbose {
				fmt.Printf("  ok   %-60s paths=%d %.2fs %v\n", s.Ob, s.Paths, s.Time, s.Backends)
			}
			continue
		}
		bad++
		fmt.Printf("  FAIL %-60s %s paths=%d %.2fs\n       %s\n       %s\n       file=%s tried=%v\n", s.Ob, s.Status, s.Paths, s.Time, s.Worst.Q.Desc, s.Worst.Q.Pos, s.Worst.File, s.Worst.Tried)
	}
	var ks []string
	for a := range prog.Assumptions {
		ks = append(ks, a)
	}
	sort.Strings(ks)
	fmt.Printf("%d obligations, %d not discharged, %d queries, solve %.1fs\n", len(sums), bad, len(all), time.Since(t1).Seconds())
}
