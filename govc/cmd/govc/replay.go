package main

import (
	"fmt"

	"govc/vc"
)

// replayOnRealCode tries to turn the solver's model into a run of the real function.
// Filled in by replaygen.go for functions whose inputs are scalars, byte slices and strings.
func replayOnRealCode(r *propRun, s *vc.ObSummary, rep map[string]any) {
	genReplay(r, s, rep)
}

func runReplayTest(rep map[string]any, src string) int {
	pkg, _ := rep["package_dir"].(string)
	name, _ := rep["test_name"].(string)
	out, failed, err := runOverlayTest(pkg, name, src)
	fmt.Println(out)
	if err != nil {
		fmt.Println("replay could not be run:", err)
		return 2
	}
	if failed {
		fmt.Println("REPRODUCED: the real code violates the obligation on this input")
		return 1
	}
	fmt.Println("not reproduced on the current tree")
	return 0
}
