package main

import (
	"encoding/json"
	"fmt"
	"go/ast"
	"go/parser"
	"go/token"
	"os"
	osexec "os/exec"
	"path/filepath"
	"regexp"
	"sort"
	"strings"
	"sync"
	"time"
)

// A mutant is a small, compiling change to /repo that breaks a property. It is applied through
// the package loader's overlay (no file in /repo is touched). The selftest requires every mutant
// to fail at least one obligation of its property: a surviving mutant is a hole in the contracts
// or in the verifier.
type Mutant struct {
	Name       string `json:"name"`
	Property   string `json:"property"`
	File       string `json:"file"` // relative to /repo
	Old        string `json:"old"`
	New        string `json:"new"`
	Occurrence int    `json:"occurrence"` // 1-based; 0 = the only occurrence
	Why        string `json:"why"`
	Expect     string `json:"expect"` // optional substring of an obligation expected to fail
}

func loadMutants(dir string) ([]*Mutant, error) {
	var out []*Mutant
	files, _ := filepath.Glob(filepath.Join(dir, "*.json"))
	sort.Strings(files)
	for _, f := range files {
		b, err := os.ReadFile(f)
		if err != nil {
			return nil, err
		}
		var ms []*Mutant
		if err := json.Unmarshal(b, &ms); err != nil {
			return nil, fmt.Errorf("%s: %v", f, err)
		}
		out = append(out, ms...)
	}
	return out, nil
}

func (m *Mutant) apply() (map[string][]byte, error) {
	path := filepath.Join(repoRoot, m.File)
	b, err := os.ReadFile(path)
	if err != nil {
		return nil, err
	}
	s := string(b)
	n := strings.Count(s, m.Old)
	if n == 0 {
		return nil, fmt.Errorf("mutant %s: pattern not found in %s", m.Name, m.File)
	}
	occ := m.Occurrence
	if occ == 0 {
		if n != 1 {
			return nil, fmt.Errorf("mutant %s: pattern occurs %d times in %s, give occurrence", m.Name, n, m.File)
		}
		occ = 1
	}
	idx := -1
	from := 0
	for i := 0; i < occ; i++ {
		j := strings.Index(s[from:], m.Old)
		if j < 0 {
			return nil, fmt.Errorf("mutant %s: occurrence %d not found", m.Name, occ)
		}
		idx = from + j
		from = idx + len(m.Old)
	}
	ns := s[:idx] + m.New + s[idx+len(m.Old):]
	return map[string][]byte{path: []byte(ns)}, nil
}

// enclosingFuncs returns the contract keys of the functions whose source text differs between the
// original and the mutated file (a mutant only affects the obligations of the function it edits:
// callers are checked against the callee's contract, not its body).
func enclosingFuncs(path string, orig, mutated []byte) []string {
	keys := map[string]bool{}
	collect := func(src []byte) map[string]string {
		out := map[string]string{}
		fset := token.NewFileSet()
		f, err := parser.ParseFile(fset, path, src, 0)
		if err != nil {
			return out
		}
		for _, d := range f.Decls {
			fd, ok := d.(*ast.FuncDecl)
			if !ok {
				continue
			}
			key := fd.Name.Name
			if fd.Recv != nil && len(fd.Recv.List) == 1 {
				t := fd.Recv.List[0].Type
				star := ""
				if se, ok := t.(*ast.StarExpr); ok {
					star = "*"
					t = se.X
				}
				if ie, ok := t.(*ast.IndexExpr); ok {
					t = ie.X
				}
				if ie, ok := t.(*ast.IndexListExpr); ok {
					t = ie.X
				}
				if id, ok := t.(*ast.Ident); ok {
					key = "(" + star + id.Name + ")." + fd.Name.Name
				}
			}
			out[key] = string(src[fset.Position(fd.Pos()).Offset:fset.Position(fd.End()).Offset])
		}
		return out
	}
	o, m := collect(orig), collect(mutated)
	for k, v := range m {
		if o[k] != v {
			keys[k] = true
		}
	}
	for k := range o {
		if _, ok := m[k]; !ok {
			keys[k] = true
		}
	}
	var out []string
	for k := range keys {
		out = append(out, k)
	}
	sort.Strings(out)
	return out
}

// mutantMain runs one mutant (in its own process: sorts and terms of different programs must not mix).
// exit status: 0 killed, 1 survived, 3 engine error.
func mutantMain(args []string) int {
	if len(args) < 2 {
		return 2
	}
	dir, name := args[0], args[1]
	id := filepath.Base(dir)
	cfg := findProp(id)
	if cfg == nil {
		fmt.Printf("  %-8s %-40s no property config\n", id, name)
		return 1
	}
	ms, err := loadMutants(dir)
	if err != nil {
		fmt.Println("selftest:", err)
		return 2
	}
	stopOnFail = true
	crossCheck = true
	for _, m := range ms {
		if m.Name != name {
			continue
		}
		ov, err := m.apply()
		if err != nil {
			fmt.Println("selftest:", err)
			return 1
		}
		work := filepath.Join(verifRoot, ".work", "mutant-"+id+"-"+sanitizeFile(m.Name))
		defer os.RemoveAll(work)
		mcfg := *cfg
		mcfg.Pkgs = []string{"./" + filepath.Dir(m.File)}
		path := filepath.Join(repoRoot, m.File)
		orig, _ := os.ReadFile(path)
		if fs := enclosingFuncs(path, orig, ov[path]); len(fs) > 0 {
			var alts []string
			for _, f := range fs {
				// the function itself and the closures declared inside it (name$1, name$2 ...)
				alts = append(alts, regexp.QuoteMeta(f)+`(\$\d+)*`)
			}
			// package-wide scans (directives) always run; a mutated function that is not under this
			// property's contracts contributes nothing, as in the real check
			alts = append(alts, "directives")
			mcfg.Funcs = "^(" + strings.Join(alts, "|") + ")$"
			mcfg.re = regexp.MustCompile(mcfg.Funcs)
			if cfg.re != nil {
				// never verify more than the property's own functions
				base := cfg.re
				sel := mcfg.re
				mcfg.re = nil
				mcfg.match = func(s string) bool { return base.MatchString(s) && sel.MatchString(s) }
			}
		}
		r := runProp(&mcfg, 20*time.Second, ov, work, false, 4)
		if r.loadErr != nil {
			fmt.Printf("  %-8s %-40s DOES NOT COMPILE: %v\n", id, m.Name, firstLineOf(r.loadErr.Error()))
			return 1
		}
		var failed []string
		for _, s := range r.sums {
			if s.Status == "engine-error" {
				fmt.Printf("  %-8s %-40s ENGINE ERROR (solver/encoding disagreement) on %s: %s\n", id, m.Name, s.Ob, s.Worst.Detail)
				return 3
			}
		}
		for _, s := range r.sums {
			if s.Status != "proved" && s.Status != "covered" && s.Status != "skipped" {
				failed = append(failed, s.Ob+"("+s.Status+")")
			}
		}
		for k := range r.notVerified {
			failed = append(failed, k+"#verifiable")
		}
		// bounded stand-ins run on the mutated source too (labelled as such)
		if len(failed) == 0 {
			for _, bp := range cfg.Bounded {
				src, err := os.ReadFile(filepath.Join(verifRoot, "bounded", id, bp.File))
				if err != nil {
					continue
				}
				out, failedRun, rerr := runOverlayTestWith(filepath.Join(repoRoot, bp.PkgDir), "TestGovcBounded", string(src), "govc_bounded_test.go", ov)
				if rerr == nil && failedRun {
					failed = append(failed, bp.Func+"#bounded(BOUNDED search found: "+firstLineOf(strings.TrimSpace(tail(out, 300)))+")")
				}
			}
		}
		sort.Strings(failed)
		if len(failed) == 0 {
			fmt.Printf("  %-8s %-40s SURVIVED  (%s) [functions %s]\n", id, m.Name, m.Why, mcfg.Funcs)
			return 1
		}
		hit := m.Expect == ""
		for _, f := range failed {
			if m.Expect != "" && strings.Contains(f, m.Expect) {
				hit = true
			}
		}
		tag := "killed"
		if !hit {
			tag = "killed (not by the expected obligation " + m.Expect + ")"
		}
		show := failed
		if len(show) > 4 {
			show = append(show[:4:4], fmt.Sprintf("... +%d", len(failed)-4))
		}
		fmt.Printf("  %-8s %-40s %s: %s  [%.0fs]\n", id, m.Name, tag, strings.Join(show, " "), r.wall)
		return 0
	}
	fmt.Printf("  %-8s %-40s not found\n", id, name)
	return 1
}

func selftestMain(args []string) int {
	only := ""
	if len(args) > 0 {
		only = args[0]
	}
	root := filepath.Join(verifRoot, "mutants")
	if d := os.Getenv("GOVC_MUTANTS"); d != "" {
		root = d // development: run a subset of the corpus
	}
	dirs, _ := filepath.Glob(filepath.Join(root, "*"))
	sort.Strings(dirs)
	survived, total, engine := 0, 0, 0
	self, _ := os.Executable()
	type job struct{ dir, name string }
	var jobs []job
	for _, d := range dirs {
		id := filepath.Base(d)
		if only != "" && only != id {
			continue
		}
		ms, err := loadMutants(d)
		if err != nil {
			fmt.Println("selftest:", err)
			return 2
		}
		for _, m := range ms {
			jobs = append(jobs, job{d, m.Name})
		}
	}
	// three mutants at a time (each one runs 4 queries x up to 4 solver processes)
	type result struct {
		out  string
		code int
	}
	results := make([]result, len(jobs))
	sem := make(chan struct{}, 3)
	var wg sync.WaitGroup
	for i, j := range jobs {
		wg.Add(1)
		sem <- struct{}{}
		go func(i int, j job) {
			defer wg.Done()
			defer func() { <-sem }()
			cmd := osexec.Command(self, "mutant", j.dir, j.name)
			// three children share the machine: four solver processes each
			cmd.Env = append(os.Environ(), "GOVC_PROCS=4")
			out, err := cmd.CombinedOutput()
			code := 0
			if err != nil {
				code = 1
				if ee, ok := err.(*osexec.ExitError); ok {
					code = ee.ExitCode()
				}
			}
			results[i] = result{string(out), code}
		}(i, j)
	}
	wg.Wait()
	for _, r := range results {
		total++
		fmt.Print(r.out)
		switch r.code {
		case 0:
		case 3:
			engine++
			survived++
		default:
			survived++
		}
	}
	fmt.Printf("selftest: %d mutants, %d not killed (%d engine errors)\n", total, survived, engine)
	if survived > 0 {
		return 1
	}
	return 0
}

func firstLineOf(s string) string {
	if i := strings.IndexByte(s, '\n'); i >= 0 {
		return s[:i]
	}
	return s
}
