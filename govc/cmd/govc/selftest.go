package main

import (
	"encoding/json"
	"fmt"
	"os"
	"path/filepath"
	"sort"
	"strings"
	"time"
)

// A mutant is a small, compiling change to /repo that breaks a property. It is applied through
// the package loader's overlay (no file in /repo is touched). The selftest requires every mutant
// to fail at least one obligation of its property: a surviving mutant is a hole in the contracts
// or in the verifier.
type Mutant struct {
	Name       string `json:"name"`
	Property   string `json:"property"`
	File       string `json:"file"` // relative to /repo
	Old        string `json:"old"`
	New        string `json:"new"`
	Occurrence int    `json:"occurrence"` // 1-based; 0 = the only occurrence
	Why        string `json:"why"`
	Expect     string `json:"expect"` // optional substring of an obligation expected to fail
}

func loadMutants(dir string) ([]*Mutant, error) {
	var out []*Mutant
	files, _ := filepath.Glob(filepath.Join(dir, "*.json"))
	sort.Strings(files)
	for _, f := range files {
		b, err := os.ReadFile(f)
		if err != nil {
			return nil, err
		}
		var ms []*Mutant
		if err := json.Unmarshal(b, &ms); err != nil {
			return nil, fmt.Errorf("%s: %v", f, err)
		}
		out = append(out, ms...)
	}
	return out, nil
}

func (m *Mutant) apply() (map[string][]byte, error) {
	path := filepath.Join(repoRoot, m.File)
	b, err := os.ReadFile(path)
	if err != nil {
		return nil, err
	}
	s := string(b)
	n := strings.Count(s, m.Old)
	if n == 0 {
		return nil, fmt.Errorf("mutant %s: pattern not found in %s", m.Name, m.File)
	}
	occ := m.Occurrence
	if occ == 0 {
		if n != 1 {
			return nil, fmt.Errorf("mutant %s: pattern occurs %d times in %s, give occurrence", m.Name, n, m.File)
		}
		occ = 1
	}
	idx := -1
	from := 0
	for i := 0; i < occ; i++ {
		j := strings.Index(s[from:], m.Old)
		if j < 0 {
			return nil, fmt.Errorf("mutant %s: occurrence %d not found", m.Name, occ)
		}
		idx = from + j
		from = idx + len(m.Old)
	}
	ns := s[:idx] + m.New + s[idx+len(m.Old):]
	return map[string][]byte{path: []byte(ns)}, nil
}

func selftestMain(args []string) int {
	only := ""
	if len(args) > 0 {
		only = args[0]
	}
	root := filepath.Join(verifRoot, "mutants")
	if d := os.Getenv("GOVC_MUTANTS"); d != "" {
		root = d // development: run a subset of the corpus
	}
	dirs, _ := filepath.Glob(filepath.Join(root, "*"))
	sort.Strings(dirs)
	survived := 0
	total := 0
	stopOnFail = true
	for _, d := range dirs {
		id := filepath.Base(d)
		if only != "" && only != id {
			continue
		}
		cfg := findProp(id)
		if cfg == nil {
			fmt.Printf("selftest: no property config for %s\n", id)
			continue
		}
		ms, err := loadMutants(d)
		if err != nil {
			fmt.Println("selftest:", err)
			return 2
		}
		for _, m := range ms {
			total++
			ov, err := m.apply()
			if err != nil {
				fmt.Println("selftest:", err)
				survived++
				continue
			}
			work := filepath.Join(verifRoot, ".work", "mutant-"+id)
			// only the package that contains the mutated file is re-verified
			mcfg := *cfg
			mcfg.Pkgs = []string{"./" + filepath.Dir(m.File)}
			r := runProp(&mcfg, 10*time.Second, ov, work, false, 6)
			if r.loadErr != nil {
				fmt.Printf("  %-8s %-40s DOES NOT COMPILE: %v\n", id, m.Name, firstLineOf(r.loadErr.Error()))
				survived++
				continue
			}
			var failed []string
			for _, s := range r.sums {
				if s.Status != "proved" && s.Status != "covered" && s.Status != "skipped" {
					failed = append(failed, s.Ob+"("+s.Status+")")
				}
			}
			for k := range r.notVerified {
				failed = append(failed, k+"#verifiable")
			}
			sort.Strings(failed)
			if len(failed) == 0 {
				survived++
				fmt.Printf("  %-8s %-40s SURVIVED  (%s)\n", id, m.Name, m.Why)
				continue
			}
			hit := m.Expect == ""
			for _, f := range failed {
				if m.Expect != "" && strings.Contains(f, m.Expect) {
					hit = true
				}
			}
			tag := "killed"
			if !hit {
				tag = "killed (not by the expected obligation " + m.Expect + ")"
			}
			show := failed
			if len(show) > 4 {
				show = append(show[:4:4], fmt.Sprintf("... +%d", len(failed)-4))
			}
			fmt.Printf("  %-8s %-40s %s: %s  [%.0fs]\n", id, m.Name, tag, strings.Join(show, " "), r.wall)
		}
	}
	fmt.Printf("selftest: %d mutants, %d survived\n", total, survived)
	if survived > 0 {
		return 1
	}
	return 0
}

func firstLineOf(s string) string {
	if i := strings.IndexByte(s, '\n'); i >= 0 {
		return s[:i]
	}
	return s
}
