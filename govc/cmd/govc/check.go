package main

import (
	"encoding/json"
	"fmt"
	"os"
	"path/filepath"
	"regexp"
	"sort"
	"strconv"
	"strings"
	"time"

	"govc/vc"
)

// stopOnFail: set by the selftest, where one failed obligation per mutant is all that is asked for.
var stopOnFail bool

// crossCheck: let all racers finish and compare their answers (selftest and thorough tier).
var crossCheck bool

const verifRoot = "/verif"
const repoRoot = "/repo"

type propRun struct {
	cfg         *PropCfg
	prog        *vc.Prog
	outs        []*vc.Outcome
	sums        []*vc.ObSummary
	funcs       []string
	lemmas      []string
	notVerified map[string]string
	loadErr     error
	wall        float64
	solveTime   float64
	paths       int
	queries     int
	notes       []string
	mirrored    []string
}

// runProp loads the packages (with an optional overlay), generates the obligations of the
// property's functions and discharges them.
func runProp(cfg *PropCfg, timeout time.Duration, overlay map[string][]byte, work string, confirm bool, jobs int) *propRun {
	t0 := time.Now()
	r := &propRun{cfg: cfg, notVerified: map[string]string{}}
	// mirrored packages: verified through their original while the files are byte-identical
	patterns := append([]string{}, cfg.Pkgs...)
	read := func(pkg, file string) []byte {
		path := filepath.Join(repoRoot, pkg, file)
		if b, ok := overlay[path]; ok {
			return b
		}
		b, _ := os.ReadFile(path)
		return b
	}
	for _, m := range cfg.Mirrors {
		same := true
		for _, f := range m.Files {
			a, b := read(m.Pkg, f), read(m.Of, f)
			if a == nil || b == nil || string(a) != string(b) {
				same = false
			}
		}
		if !same {
			continue
		}
		var keep []string
		dropped := false
		for _, p := range patterns {
			if p == m.Pkg {
				dropped = true
				continue
			}
			keep = append(keep, p)
		}
		if dropped {
			patterns = keep
			r.notes = append(r.notes, fmt.Sprintf("package %s: %v are byte-identical to %s (compared on this run); its obligations are the obligations of %s", m.Pkg, m.Files, m.Of, m.Of))
			r.mirrored = append(r.mirrored, m.Pkg)
		}
	}
	prog, err := vc.Load(vc.LoadConfig{Dir: repoRoot, Patterns: patterns, Overlay: overlay})
	if err != nil {
		r.loadErr = err
		return r
	}
	r.prog = prog
	for _, e := range prog.BindErrors {
		r.notVerified["bind: "+e] = e
	}
	var all []*vc.Query
	for _, pk := range prog.Pkgs {
		short := pk.PkgPath[strings.LastIndex(pk.PkgPath, "/")+1:]
		_ = short
		for _, c := range prog.Functions(pk.PkgPath) {
			if c.C.Trusted {
				continue
			}
			if !cfg.selects(c.C.Key()) {
				continue
			}
			name := pk.PkgPath + "." + c.C.Key()
			res := prog.VerifyFunc(c)
			if res.Unsupported != "" {
				r.notVerified[name] = res.Unsupported
				continue
			}
			r.funcs = append(r.funcs, name)
			r.paths += res.Paths
			r.notes = append(r.notes, res.Notes...)
			all = append(all, res.Queries...)
		}
		if cfg.selects("directives") {
			if res := prog.CheckDirectives(pk.PkgPath); res != nil {
				if res.Unsupported != "" {
					r.notVerified[pk.PkgPath+".directives"] = res.Unsupported
				} else {
					r.notes = append(r.notes, res.Notes...)
					all = append(all, res.Queries...)
				}
			}
		}
		for _, ld := range prog.Lemmas[pk.PkgPath] {
			if !cfg.selects("lemma " + ld.L.Name) {
				continue
			}
			name := pk.PkgPath + ".lemma " + ld.L.Name
			res := prog.VerifyLemma(ld)
			if res.Unsupported != "" {
				r.notVerified[name] = res.Unsupported
				continue
			}
			r.lemmas = append(r.lemmas, name)
			all = append(all, res.Queries...)
		}
	}
	// Every obligation of the selected functions is discharged: a postcondition is only proved
	// relative to the loop invariants, callee preconditions and frame conditions of its function,
	// so none of them may be filtered out. cfg.Obs only selects the obligations that are shown
	// as the property's headline clauses in the evidence.
	r.queries = len(all)
	_ = os.RemoveAll(work)
	t1 := time.Now()
	r.outs = prog.SolveAll(all, vc.SolveConfig{WorkDir: work, Timeout: timeout, Jobs: jobs, Keep: false, Confirm: confirm, StopOnFail: stopOnFail, CrossCheck: crossCheck || confirm})
	r.solveTime = time.Since(t1).Seconds()
	r.sums = vc.Summarise(r.outs)
	r.wall = time.Since(t0).Seconds()
	return r
}

type finding struct {
	kind, prop, ob, text string
}

func loadFindings() []finding {
	b, err := os.ReadFile(filepath.Join(verifRoot, "known_findings.txt"))
	if err != nil {
		return nil
	}
	var out []finding
	re := regexp.MustCompile(`^(finding|fixed):\s+property=(\S+)\s+(?:obligation=(\S+)\s+)?(.*)$`)
	for _, l := range strings.Split(string(b), "\n") {
		l = strings.TrimSpace(l)
		if m := re.FindStringSubmatch(l); m != nil {
			out = append(out, finding{kind: m[1], prop: m[2], ob: m[3], text: m[4]})
		}
	}
	return out
}

func sanitizeFile(s string) string {
	return regexp.MustCompile(`[^A-Za-z0-9_.\-]+`).ReplaceAllString(s, "_")
}

func checkMain(args []string) int {
	if len(args) < 1 {
		fmt.Fprintln(os.Stderr, "usage: govc check <property> [quick|thorough] [--replay file]")
		return 2
	}
	id := args[0]
	tier := "quick"
	if len(args) > 1 && !strings.HasPrefix(args[1], "--") {
		tier = args[1]
	}
	if t := os.Getenv("VERIF_TIER"); t != "" && len(args) < 2 {
		tier = t
	}
	for i, a := range args {
		if a == "--replay" && i+1 < len(args) {
			return replayMain(id, args[i+1])
		}
	}
	cfg := findProp(id)
	if cfg == nil {
		fmt.Fprintln(os.Stderr, "unknown property", id)
		return 2
	}
	seed := 0
	if s := os.Getenv("VERIF_SEED"); s != "" {
		seed, _ = strconv.Atoi(s)
	}
	timeout := 20 * time.Second
	confirm := false
	if tier == "thorough" {
		timeout = 60 * time.Second
		confirm = true
	}
	work := filepath.Join(verifRoot, ".work", id+"-"+tier)
	r := runProp(cfg, timeout, nil, work, confirm, 5)
	if r.loadErr != nil {
		fmt.Fprintln(os.Stderr, "govc: cannot load /repo:", r.loadErr)
		// the tree does not build: that is not a property violation we can attribute; report as engine failure
		return 2
	}
	findings := loadFindings()
	known := map[string]finding{}
	for _, f := range findings {
		if f.kind == "finding" && f.prop == id {
			known[f.ob] = f
		}
	}
	violations := 0
	var failed []*vc.ObSummary
	byBackend := map[string]int{}
	discharged := 0
	var samples []map[string]any
	for _, s := range r.sums {
		for b, n := range s.Backends {
			if b != "" {
				byBackend[b] += n
			}
		}
		ok := s.Status == "proved" || s.Status == "covered"
		if ok && s.Time > 8 {
			fmt.Printf("note: slow obligation %s: %.1fs over %d queries %v\n", s.Ob, s.Time, s.Paths, s.Worst.Tried)
		}
		if ok {
			discharged++
			if len(samples) < 16 && !strings.Contains(s.Ob, "cover.") && (cfg.obre == nil || cfg.obre.MatchString(s.Ob)) && (cfg.obre != nil || strings.Contains(s.Ob, "#post") || strings.Contains(s.Ob, "#behavior") || strings.Contains(s.Ob, "#lemma") || strings.Contains(s.Ob, "inv")) {
				samples = append(samples, map[string]any{"obligation": s.Ob, "status": s.Status, "queries": s.Paths, "solver_time_s": round3(s.Time), "backends": s.Backends, "what": s.Worst.Q.Desc})
			}
			continue
		}
		failed = append(failed, s)
	}
	// functions that could not be brought under the verifier count as failed obligations
	var nvKeys []string
	for k := range r.notVerified {
		nvKeys = append(nvKeys, k)
	}
	sort.Strings(nvKeys)
	replayDir := filepath.Join(verifRoot, "replays", id)
	for _, k := range nvKeys {
		short := k
		if i := strings.LastIndex(short, "/"); i >= 0 {
			short = short[i+1:]
		}
		ob := short + "#verifiable"
		if f, ok := known[ob]; ok {
			fmt.Printf("KNOWN-FINDING: property=%s %s %s\n", id, ob, f.text)
			continue
		}
		violations++
		_ = os.MkdirAll(replayDir, 0o755)
		path := filepath.Join(replayDir, sanitizeFile(ob)+".json")
		rep := map[string]any{"property": id, "obligation": ob, "status": "undecided", "reason": r.notVerified[k],
			"note": "the function (or its contract) is outside what the verifier accepts after this change; the obligations that passed on the unchanged tree can no longer be generated"}
		// the property's bounded search (if it has one) may still find a failing input on the real code
		genReplay(r, &vc.ObSummary{Ob: ob}, rep)
		writeJSON(path, rep)
		suffix := ""
		if rep["reproduced"] != true {
			suffix = " no-failing-input-found"
		}
		fmt.Printf("VIOLATION property=%s replay=%s obligation=%s status=undecided%s\n", id, path, ob, suffix)
	}
	for _, s := range failed {
		if s.Status == "engine-error" {
			// two back ends disagree on the same query: nothing this run says can be believed
			fmt.Printf("govc: ENGINE ERROR on %s: %s\n", s.Ob, s.Worst.Detail)
			return 2
		}
	}
	for _, s := range failed {
		if f, ok := known[s.Ob]; ok {
			fmt.Printf("KNOWN-FINDING: property=%s %s %s\n", id, s.Ob, f.text)
			continue
		}
		violations++
		_ = os.MkdirAll(replayDir, 0o755)
		path := filepath.Join(replayDir, sanitizeFile(s.Ob)+".json")
		rep := buildReplay(r, s)
		writeJSON(path, rep)
		suffix := ""
		if rep["reproduced"] != true {
			suffix = " no-failing-input-found"
		}
		fmt.Printf("VIOLATION property=%s replay=%s obligation=%s status=%s%s\n", id, path, s.Ob, s.Status, suffix)
	}
	// bounded stand-ins for functions outside the verifier's reach: run on the real code, labelled
	// bounded, never counted among the discharged obligations
	var boundedEv []map[string]any
	for _, bp := range cfg.Bounded {
		src, err := os.ReadFile(filepath.Join(verifRoot, "bounded", id, bp.File))
		if err != nil {
			fmt.Fprintln(os.Stderr, "govc: bounded part", bp.Name, "missing:", err)
			return 2
		}
		t0 := time.Now()
		out, failedRun, rerr := runOverlayTestV(filepath.Join(repoRoot, bp.PkgDir), "TestGovcBounded", string(src), "govc_bounded_test.go")
		evals := 0
		if i := strings.Index(out, "GOVC-BOUNDED evaluations="); i >= 0 {
			fmt.Sscanf(out[i:], "GOVC-BOUNDED evaluations=%d", &evals)
		}
		be := map[string]any{"name": bp.Name, "stands_in_for": bp.Func, "bound": bp.Bound, "level": "bounded (not a proof)", "evaluations": evals,
			"wall_s": round3(time.Since(t0).Seconds()), "passed": !failedRun && rerr == nil}
		boundedEv = append(boundedEv, be)
		ob := bp.Func + "#bounded"
		if rerr != nil {
			fmt.Fprintln(os.Stderr, "govc: bounded part", bp.Name, "could not run:", rerr, tail(out, 600))
			return 2
		}
		if failedRun {
			if f, ok := known[ob]; ok {
				fmt.Printf("KNOWN-FINDING: property=%s %s %s\n", id, ob, f.text)
				continue
			}
			violations++
			_ = os.MkdirAll(replayDir, 0o755)
			path := filepath.Join(replayDir, sanitizeFile(ob)+".json")
			writeJSON(path, map[string]any{"property": id, "obligation": ob, "status": "refuted by bounded search on the real code", "bound": bp.Bound,
				"test_source": string(src), "test_name": "TestGovcBounded", "package_dir": filepath.Join(repoRoot, bp.PkgDir), "replay_output": tail(out, 4000), "reproduced": true})
			fmt.Printf("VIOLATION property=%s replay=%s obligation=%s status=bounded-counterexample\n", id, path, ob)
		} else {
			fmt.Printf("bounded: %s passed (%d cases; %s) - not a proof\n", bp.Name, evals, bp.Bound)
		}
	}
	// evidence
	var trusted []string
	for k := range r.prog.Trusted {
		trusted = append(trusted, "trusted contract: "+k)
	}
	sort.Strings(trusted)
	assumptions := append([]string{}, baseAssumptions...)
	for a := range r.prog.Assumptions {
		assumptions = append(assumptions, a)
	}
	for _, u := range cfg.Unverified {
		assumptions = append(assumptions, "not decided by this check: "+u)
	}
	sort.Strings(assumptions)
	sort.Strings(r.funcs)
	nv := []string{}
	for _, k := range nvKeys {
		nv = append(nv, k+": "+r.notVerified[k])
	}
	total := len(r.sums) + len(nvKeys)
	ev := map[string]any{
		"property_id": id,
		"tier":        tier,
		"seed":        seed,
		"level":       "proof",
		"coverage": map[string]any{
			"obligations":              total,
			"discharged":               discharged,
			"checker_cmd":              fmt.Sprintf("/verif/bin/govc check %s %s", id, tier),
			"trusted_base":             append(trusted, "govc (VC generator, SMT encoding, stdlib models)", "z3-new 5.1.0 / z3 4.8.12 / cvc5 1.0"),
			"functions_under_contract": r.funcs,
			"lemmas":                   r.lemmas,
			"functions_not_verified":   nv,
			"by_backend":               byBackend,
			"solver_time_s":            round3(r.solveTime),
			"paths":                    r.paths,
			"queries":                  r.queries,
			"samples":                  samples,
			"partial_scope":            cfg.Scope,
			"mirrored_packages":        r.mirrored,
			"notes":                    dedupe(r.notes),
			"bounded_parts":            boundedEv,
		},
		"assumptions": assumptions,
		"wall_s":      round3(r.wall),
		"violations":  violations,
	}
	_ = os.MkdirAll(filepath.Join(verifRoot, "evidence"), 0o755)
	writeJSON(filepath.Join(verifRoot, "evidence", id+".json"), ev)
	fmt.Printf("%s %s: %d obligations, %d discharged, %d violations, %d functions, %.1fs\n", id, tier, total, discharged, violations, len(r.funcs), r.wall)
	if total == 0 {
		fmt.Println("govc: no obligations generated (vacuous check)")
		return 2
	}
	if violations > 0 {
		return 1
	}
	return 0
}

var baseAssumptions = []string{
	"int/uint/uintptr are 64 bit (amd64)",
	"slice and string headers: 0 <= len <= cap <= 2^48 and offset <= 2^48 (address-space bound), used to rule out wrap-around of length arithmetic",
	"pointer parameters of scalar type point to their own cell (no aliasing with fields or elements reachable through other parameters)",
	"package-level error variables are non-nil, never reassigned, pairwise distinct",
	"the Go compiler, runtime and go/ssa agree with the Go specification",
	"recursion depth / goroutine stack is not modelled",
}

func round3(f float64) float64 { return float64(int(f*1000)) / 1000 }

func dedupe(in []string) []string {
	seen := map[string]bool{}
	out := []string{}
	for _, s := range in {
		if !seen[s] {
			seen[s] = true
			out = append(out, s)
		}
	}
	return out
}

func writeJSON(path string, v any) {
	b, _ := json.MarshalIndent(v, "", " ")
	_ = os.WriteFile(path, append(b, '\n'), 0o644)
}

// buildReplay records a failed obligation: the solver output, the model if any, and (when a
// model exists and the function is replayable) the outcome of running the real code on it.
func buildReplay(r *propRun, s *vc.ObSummary) map[string]any {
	o := s.Worst
	rep := map[string]any{
		"property":   r.cfg.ID,
		"obligation": s.Ob,
		"function":   o.Q.Func,
		"status":     s.Status,
		"position":   o.Q.Pos.String(),
		"what":       o.Q.Desc,
		"path":       o.Q.Trace,
		"solvers":    o.Tried,
		"solver_output": o.Detail,
		"reproduced": false,
	}
	if o.Model != "" {
		rep["model"] = o.Model
	}
	replayOnRealCode(r, s, rep)
	return rep
}

func replayMain(id, path string) int {
	b, err := os.ReadFile(path)
	if err != nil {
		fmt.Fprintln(os.Stderr, err)
		return 2
	}
	var rep map[string]any
	if err := json.Unmarshal(b, &rep); err != nil {
		fmt.Fprintln(os.Stderr, err)
		return 2
	}
	fmt.Printf("obligation %v (%v) at %v\n%v\n", rep["obligation"], rep["status"], rep["position"], rep["what"])
	if t, ok := rep["test_source"].(string); ok {
		return runReplayTest(rep, t)
	}
	fmt.Println("no replay test recorded for this obligation (no-failing-input-found)")
	return 0
}
