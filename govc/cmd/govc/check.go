package main

func checkMain(args []string) int    { return 2 }
func selftestMain(args []string) int { return 2 }
