// Package spec parses the //@ contract language (see DESIGN.md appendix A).
package spec

import "fmt"

type Pos struct {
	File string
	Line int
}

func (p Pos) String() string { return fmt.Sprintf("%s:%d", p.File, p.Line) }

type Expr interface{ exprNode() }

type (
	Ident   struct{ Name string }
	IntLit  struct{ Text string }
	CharLit struct{ Val rune }
	StrLit  struct{ Val string }
	Unary   struct {
		Op string
		X  Expr
	}
	Binary struct {
		Op   string
		X, Y Expr
	}
	Cond  struct{ C, A, B Expr }
	Call  struct {
		Fun  Expr
		Args []Expr
	}
	Index    struct{ X, I Expr }
	SliceE   struct{ X, Lo, Hi Expr }
	Selector struct {
		X    Expr
		Name string
	}
	Quant struct {
		Forall bool
		Vars   []Param
		Body   Expr
	}
	Let struct {
		Name string
		Val  Expr
		Body Expr
	}
	TypeE struct{ T *TypeExpr } // a type used as conversion target
	TypeAssert struct {
		X Expr
		T *TypeExpr
	}
)

func (*Ident) exprNode()      {}
func (*IntLit) exprNode()     {}
func (*CharLit) exprNode()    {}
func (*StrLit) exprNode()     {}
func (*Unary) exprNode()      {}
func (*Binary) exprNode()     {}
func (*Cond) exprNode()       {}
func (*Call) exprNode()       {}
func (*Index) exprNode()      {}
func (*SliceE) exprNode()     {}
func (*Selector) exprNode()   {}
func (*Quant) exprNode()      {}
func (*Let) exprNode()        {}
func (*TypeE) exprNode()      {}
func (*TypeAssert) exprNode() {}

// TypeExpr: Kind is one of "name" (Name, optional Pkg, Args), "ptr", "slice", "array" (Len), "map" (Key, Elem)
type TypeExpr struct {
	Kind string
	Pkg  string
	Name string
	Args []*TypeExpr
	Elem *TypeExpr
	Key  *TypeExpr
	Len  string
}

func (t *TypeExpr) String() string {
	if t == nil {
		return "<nil>"
	}
	switch t.Kind {
	case "ptr":
		return "*" + t.Elem.String()
	case "slice":
		return "[]" + t.Elem.String()
	case "array":
		return "[" + t.Len + "]" + t.Elem.String()
	case "map":
		return "map[" + t.Key.String() + "]" + t.Elem.String()
	}
	s := t.Name
	if t.Pkg != "" {
		s = t.Pkg + "." + s
	}
	if len(t.Args) > 0 {
		s += "["
		for i, a := range t.Args {
			if i > 0 {
				s += ","
			}
			s += a.String()
		}
		s += "]"
	}
	return s
}

type Param struct {
	Name string
	Type *TypeExpr
}

type Clause struct {
	Label string
	E     Expr
	Pos   Pos
	Text  string
}

type LoopSpec struct {
	Invariants []*Clause
	Decreases  *Clause
}

type Behavior struct {
	Name    string
	Ghost   []Param
	Assumes []*Clause
	Ensures []*Clause
}

type FuncContract struct {
	Pos       Pos
	Extern    bool
	Trusted   bool   // contract is assumed for callers, body not verified
	PkgPath   string // extern: import path; "" = package of the file
	RecvName  string
	RecvType  *TypeExpr // nil for plain functions
	Name      string
	Params    []Param
	Results   []Param
	Requires  []*Clause
	Ensures   []*Clause
	Assigns   []Expr
	HasAssign bool
	Decreases *Clause
	Loops     map[int]*LoopSpec
	Behaviors []*Behavior
	Ghost     []Param // ghost (universally quantified) parameters of the contract
	Props     []string
	Mayalloc  bool
	Pure      bool
	Cases     []*Clause // proof by cases: the function is verified once per truth assignment
	LockRequires []*Clause // monitors: what the caller guarantees about the guarded state when the lock is taken
	Consumes []string // owned parameters whose structure is taken over by the callee
	Releases []string // owned parameters whose root node (only) is taken over by the callee
	CallGhost map[int][]GhostArg // ghost arguments for the call with the given ordinal
	Uses     []*Use
}

type GhostArg struct {
	Name string
	E    Expr
	Text string
}

// OwnedMode says what the contract does with the owned parameter name: "" (borrowed, unchanged),
// "assigns" (modified in place), "consumes", "releases".
func (f *FuncContract) OwnedMode(name string) string {
	for _, n := range f.Consumes {
		if n == name {
			return "consumes"
		}
	}
	for _, n := range f.Releases {
		if n == name {
			return "releases"
		}
	}
	for _, a := range f.Assigns {
		if id, ok := a.(*Ident); ok && id.Name == name {
			return "assigns"
		}
	}
	if len(f.OwnedFields(name)) > 0 {
		return "fields"
	}
	return ""
}

// OwnedFields lists the fields f of `assigns name.f` entries (fields of the root node of an owned
// parameter that the function may modify; everything else below the parameter is unchanged).
func (f *FuncContract) OwnedFields(name string) []string {
	var out []string
	for _, a := range f.Assigns {
		if s, ok := a.(*Selector); ok {
			if id, ok := s.X.(*Ident); ok && id.Name == name {
				out = append(out, s.Name)
			}
		}
	}
	return out
}

// Key is the name used to bind the contract to an ssa function: Name, (T).Name or (*T).Name.
func (f *FuncContract) Key() string {
	if f.RecvType == nil {
		return f.Name
	}
	rt := f.RecvType
	star := ""
	if rt.Kind == "ptr" {
		star = "*"
		rt = rt.Elem
	}
	return "(" + star + rt.Name + ")." + f.Name
}

type SpecFunc struct {
	Pos    Pos
	Name   string
	Params []Param
	Result *TypeExpr // nil for pred (bool)
	Body   Expr
	Pred   bool
	Uninterpreted bool
	Opaque bool // treated as a function symbol; the definition is unfolded for closed applications only
	Text   string
}

type Lemma struct {
	Pos      Pos
	Name     string
	Params   []Param
	Requires []*Clause
	Ensures  []*Clause
	Uses     []*Use
	TParams  []string
}

// Use applies a lemma: `uses name(args)` adds (requires ==> ensures) of the lemma, instantiated with
// the arguments, to the hypotheses. In a function contract the arguments are evaluated in the entry
// state. A lemma may use itself on a field of one of its owned parameters (structural induction).
type Use struct {
	Name string
	Args []Expr
	Pos  Pos
	Text string
}

type TypeInv struct {
	Pos  Pos
	Type *TypeExpr
	Recv string
	E    *Clause
}

type Monitor struct {
	Pos    Pos
	Type   string
	Mu     string
	Guards []string
	Inv    []*Clause
	Recv   string
	StoreRules []*Clause // Label = field name
}

type Directive struct {
	Pos  Pos
	Kind string
	Args []string
	Text string
}

type File struct {
	Name      string
	Funcs     []*FuncContract
	SpecFuncs []*SpecFunc
	Lemmas    []*Lemma
	TypeInvs  []*TypeInv
	Monitors  []*Monitor
	Dirs      []*Directive
	Axioms    []*Clause
	Owned     []string // struct types whose pointers own recursive structures (memory model M2)
}

// IsBasicType reports whether name is a predeclared type usable as a conversion.
func IsBasicType(name string) bool { return basicTypes[name] }
