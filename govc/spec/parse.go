package spec

import (
	"fmt"
	"strconv"
	"strings"
	"unicode"
)

type tok struct {
	kind string // ident int char string op eof
	text string
	r    rune
}

type lexer struct {
	src []rune
	pos int
}

var ops3 = []string{"<==>"}
var ops = []string{"==>", "&^", "::", "&&", "||", "==", "!=", "<=", ">=", "<<", ">>", "..."}

func lexAll(s string) ([]tok, error) {
	var out []tok
	r := []rune(s)
	i := 0
	for i < len(r) {
		c := r[i]
		switch {
		case unicode.IsSpace(c):
			i++
		case unicode.IsLetter(c) || c == '_':
			j := i
			// `$` continues an identifier when digits follow (names of closures: outer$2)
			for j < len(r) && (unicode.IsLetter(r[j]) || unicode.IsDigit(r[j]) || r[j] == '_' || (r[j] == '$' && j+1 < len(r) && unicode.IsDigit(r[j+1]))) {
				j++
			}
			out = append(out, tok{kind: "ident", text: string(r[i:j])})
			i = j
		case unicode.IsDigit(c):
			j := i
			for j < len(r) && (unicode.IsLetter(r[j]) || unicode.IsDigit(r[j]) || r[j] == '_') {
				j++
			}
			out = append(out, tok{kind: "int", text: strings.ReplaceAll(string(r[i:j]), "_", "")})
			i = j
		case c == '\'':
			j := i + 1
			for j < len(r) && r[j] != '\'' {
				if r[j] == '\\' {
					j++
				}
				j++
			}
			if j >= len(r) {
				return nil, fmt.Errorf("unterminated char literal")
			}
			v, _, _, err := strconv.UnquoteChar(string(r[i+1:j]), '\'')
			if err != nil {
				return nil, err
			}
			out = append(out, tok{kind: "char", r: v, text: string(r[i : j+1])})
			i = j + 1
		case c == '"':
			j := i + 1
			for j < len(r) && r[j] != '"' {
				if r[j] == '\\' {
					j++
				}
				j++
			}
			if j >= len(r) {
				return nil, fmt.Errorf("unterminated string literal")
			}
			v, err := strconv.Unquote(string(r[i : j+1]))
			if err != nil {
				return nil, err
			}
			out = append(out, tok{kind: "string", text: v})
			i = j + 1
		default:
			matched := false
			for _, o := range append(append([]string{}, ops3...), ops...) {
				if strings.HasPrefix(string(r[i:min(i+len(o), len(r))]), o) {
					out = append(out, tok{kind: "op", text: o})
					i += len(o)
					matched = true
					break
				}
			}
			if !matched {
				out = append(out, tok{kind: "op", text: string(c)})
				i++
			}
		}
	}
	out = append(out, tok{kind: "eof"})
	return out, nil
}

type parser struct {
	toks []tok
	p    int
	pos  Pos
}

func (p *parser) peek() tok { return p.toks[p.p] }
func (p *parser) peekN(n int) tok {
	if p.p+n < len(p.toks) {
		return p.toks[p.p+n]
	}
	return tok{kind: "eof"}
}
func (p *parser) next() tok { t := p.toks[p.p]; p.p++; return t }
func (p *parser) isOp(s string) bool {
	t := p.peek()
	return t.kind == "op" && t.text == s
}
func (p *parser) isIdent(s string) bool {
	t := p.peek()
	return t.kind == "ident" && t.text == s
}
func (p *parser) accept(s string) bool {
	if p.isOp(s) {
		p.p++
		return true
	}
	return false
}
func (p *parser) expect(s string) {
	if !p.accept(s) {
		p.fail("expected %q, found %q", s, p.peek().text)
	}
}
func (p *parser) ident() string {
	t := p.next()
	if t.kind != "ident" {
		p.fail("expected identifier, found %q", t.text)
	}
	return t.text
}

type parseErr struct{ msg string }

func (p *parser) fail(f string, a ...any) {
	panic(parseErr{fmt.Sprintf("%s: %s", p.pos, fmt.Sprintf(f, a...))})
}

// ---- types

func (p *parser) parseType() *TypeExpr {
	switch {
	case p.accept("*"):
		return &TypeExpr{Kind: "ptr", Elem: p.parseType()}
	case p.isOp("["):
		p.next()
		if p.accept("]") {
			return &TypeExpr{Kind: "slice", Elem: p.parseType()}
		}
		t := p.next()
		p.expect("]")
		return &TypeExpr{Kind: "array", Len: t.text, Elem: p.parseType()}
	case p.isIdent("map"):
		p.next()
		p.expect("[")
		k := p.parseType()
		p.expect("]")
		return &TypeExpr{Kind: "map", Key: k, Elem: p.parseType()}
	}
	name := p.ident()
	te := &TypeExpr{Kind: "name", Name: name}
	if p.isOp(".") && p.peekN(1).kind == "ident" {
		p.next()
		te.Pkg = name
		te.Name = p.ident()
	}
	if p.isOp("[") && p.peekN(1).kind == "ident" {
		// generic instantiation T[A,B]
		save := p.p
		p.next()
		ok := true
		func() {
			defer func() {
				if r := recover(); r != nil {
					if _, is := r.(parseErr); is {
						ok = false
						return
					}
					panic(r)
				}
			}()
			for {
				te.Args = append(te.Args, p.parseType())
				if !p.accept(",") {
					break
				}
			}
			p.expect("]")
		}()
		if !ok {
			p.p = save
			te.Args = nil
		}
	}
	return te
}

var basicTypes = map[string]bool{"int": true, "int8": true, "int16": true, "int32": true, "int64": true,
	"uint": true, "uint8": true, "uint16": true, "uint32": true, "uint64": true, "uintptr": true,
	"byte": true, "rune": true, "bool": true, "string": true, "float32": true, "float64": true, "error": true, "any": true, "mathint": true}

// ---- expressions

func (p *parser) parseExpr() Expr { return p.parseIff() }

func (p *parser) parseIff() Expr {
	x := p.parseImpl()
	for p.isOp("<==>") {
		p.next()
		y := p.parseImpl()
		x = &Binary{Op: "<==>", X: x, Y: y}
	}
	return x
}

func (p *parser) parseImpl() Expr {
	x := p.parseCond()
	if p.isOp("==>") {
		p.next()
		y := p.parseImpl()
		return &Binary{Op: "==>", X: x, Y: y}
	}
	return x
}

func (p *parser) parseCond() Expr {
	c := p.parseBin(1)
	if p.isOp("?") {
		p.next()
		a := p.parseCond()
		p.expect(":")
		b := p.parseCond()
		return &Cond{C: c, A: a, B: b}
	}
	return c
}

func prec(op string) int {
	switch op {
	case "||":
		return 1
	case "&&":
		return 2
	case "==", "!=", "<", "<=", ">", ">=":
		return 3
	case "+", "-", "|", "^":
		return 4
	case "*", "/", "%", "<<", ">>", "&", "&^":
		return 5
	}
	return 0
}

func (p *parser) parseBin(minPrec int) Expr {
	x := p.parseUnary()
	for {
		t := p.peek()
		if t.kind != "op" {
			return x
		}
		pr := prec(t.text)
		if pr == 0 || pr < minPrec {
			return x
		}
		p.next()
		y := p.parseBin(pr + 1)
		x = &Binary{Op: t.text, X: x, Y: y}
	}
}

func (p *parser) parseUnary() Expr {
	t := p.peek()
	if t.kind == "op" {
		switch t.text {
		case "!", "-", "^", "*", "&", "+":
			p.next()
			return &Unary{Op: t.text, X: p.parseUnary()}
		}
	}
	if t.kind == "ident" && (t.text == "forall" || t.text == "exists") {
		p.next()
		q := &Quant{Forall: t.text == "forall"}
		for {
			var names []string
			names = append(names, p.ident())
			// `x, y T` shares the type
			for p.isOp(",") && p.peekN(2).kind == "op" && (p.peekN(2).text == "," || false) {
				break
			}
			ty := p.parseType()
			for _, n := range names {
				q.Vars = append(q.Vars, Param{Name: n, Type: ty})
			}
			if !p.accept(",") {
				break
			}
		}
		p.expect("::")
		q.Body = p.parseExpr()
		return q
	}
	if t.kind == "ident" && t.text == "let" {
		p.next()
		name := p.ident()
		p.expect("=")
		v := p.parseExpr()
		if !p.isIdent("in") {
			p.fail("expected 'in'")
		}
		p.next()
		body := p.parseExpr()
		return &Let{Name: name, Val: v, Body: body}
	}
	return p.parsePostfix(p.parsePrimary())
}

func (p *parser) parsePrimary() Expr {
	t := p.peek()
	switch t.kind {
	case "int":
		p.next()
		return &IntLit{Text: t.text}
	case "char":
		p.next()
		return &CharLit{Val: t.r}
	case "string":
		p.next()
		return &StrLit{Val: t.text}
	case "ident":
		if t.text == "map" && p.peekN(1).text == "[" {
			return &TypeE{T: p.parseType()}
		}
		p.next()
		return &Ident{Name: t.text}
	case "op":
		switch t.text {
		case "(":
			p.next()
			// parenthesised type for conversions like (*T)(x) is not supported; expression only
			e := p.parseExpr()
			p.expect(")")
			return e
		case "[":
			// slice/array type used as conversion: []byte(x)
			return &TypeE{T: p.parseType()}
		}
	}
	p.fail("unexpected token %q", t.text)
	return nil
}

func (p *parser) parsePostfix(x Expr) Expr {
	for {
		switch {
		case p.isOp("("):
			p.next()
			var args []Expr
			if !p.isOp(")") {
				for {
					args = append(args, p.parseExpr())
					if !p.accept(",") {
						break
					}
				}
			}
			p.expect(")")
			x = &Call{Fun: x, Args: args}
		case p.isOp("["):
			p.next()
			var lo, hi Expr
			if p.isOp(":") {
				p.next()
				if !p.isOp("]") {
					hi = p.parseExpr()
				}
				p.expect("]")
				x = &SliceE{X: x, Lo: nil, Hi: hi}
				continue
			}
			lo = p.parseExpr()
			if p.accept(":") {
				if !p.isOp("]") {
					hi = p.parseExpr()
				}
				p.expect("]")
				x = &SliceE{X: x, Lo: lo, Hi: hi}
				continue
			}
			p.expect("]")
			x = &Index{X: x, I: lo}
		case p.isOp("."):
			p.next()
			if p.accept("(") {
				t := p.parseType()
				p.expect(")")
				x = &TypeAssert{X: x, T: t}
				continue
			}
			x = &Selector{X: x, Name: p.ident()}
		default:
			return x
		}
	}
}

// ---- items

var itemKW = map[string]bool{"opaque": true, "spec": true, "pred": true, "func": true, "extern": true, "trusted": true, "lemma": true,
	"invariant": true, "monitor": true, "directive": true, "axiom": true, "owned": true}
var clauseKW = map[string]bool{"requires": true, "ensures": true, "assigns": true, "decreases": true, "loop": true,
	"behavior": true, "assumes": true, "ghost": true, "pure": true, "mayalloc": true, "prop": true, "cases": true,
	"inv": true, "storerule": true, "lockrequires": true, "consumes": true, "releases": true, "callghost": true, "uses": true}

type logical struct {
	text string
	pos  Pos
	item bool
}

func stripComment(s string) string {
	inStr, inChr := false, false
	for i := 0; i < len(s); i++ {
		switch {
		case s[i] == '\\' && (inStr || inChr):
			i++
		case s[i] == '"' && !inChr:
			inStr = !inStr
		case s[i] == '\'' && !inStr:
			inChr = !inChr
		case !inStr && !inChr && i+1 < len(s) && s[i] == '/' && s[i+1] == '/':
			return s[:i]
		}
	}
	return s
}

func firstWord(s string) string {
	s = strings.TrimSpace(s)
	for i, c := range s {
		if !(unicode.IsLetter(c) || c == '_') {
			return s[:i]
		}
	}
	return s
}

// ParseFile parses the //@ lines of src.
func ParseFile(name, src string) (f *File, err error) {
	defer func() {
		if r := recover(); r != nil {
			if pe, ok := r.(parseErr); ok {
				err = fmt.Errorf("%s", pe.msg)
				return
			}
			panic(r)
		}
	}()
	var ls []logical
	for i, line := range strings.Split(src, "\n") {
		t := strings.TrimSpace(line)
		if !strings.HasPrefix(t, "//@") {
			continue
		}
		t = stripComment(t[3:])
		if strings.TrimSpace(t) == "" {
			continue
		}
		w := firstWord(t)
		if itemKW[w] || clauseKW[w] {
			ls = append(ls, logical{text: strings.TrimSpace(t), pos: Pos{name, i + 1}, item: itemKW[w]})
		} else {
			if len(ls) == 0 {
				return nil, fmt.Errorf("%s:%d: continuation line without item", name, i+1)
			}
			ls[len(ls)-1].text += " " + strings.TrimSpace(t)
		}
	}
	f = &File{Name: name}
	var cur *FuncContract
	var curLemma *Lemma
	var curBeh *Behavior
	var curMon *Monitor
	for _, l := range ls {
		toks, lerr := lexAll(l.text)
		if lerr != nil {
			return nil, fmt.Errorf("%s: %v", l.pos, lerr)
		}
		p := &parser{toks: toks, pos: l.pos}
		kw := p.ident()
		if l.item {
			cur, curLemma, curBeh, curMon = nil, nil, nil, nil
		}
		switch kw {
		case "spec", "pred", "opaque":
			sf := &SpecFunc{Pos: l.pos, Pred: kw == "pred", Text: l.text}
			if kw == "opaque" {
				// opaque pred / opaque spec func: a function symbol whose definition is supplied only
				// for closed applications (inside quantifiers it stays uninterpreted)
				sf.Opaque = true
				kw = p.ident()
				if kw != "pred" && kw != "spec" {
					p.fail("expected 'opaque pred' or 'opaque spec func'")
				}
				sf.Pred = kw == "pred"
			}
			if kw == "spec" {
				if p.ident() != "func" {
					p.fail("expected 'spec func'")
				}
			}
			sf.Name = p.ident()
			sf.Params = p.parseParams()
			if kw == "spec" {
				sf.Result = p.parseType()
			}
			if p.peek().kind == "eof" {
				// no body: an uninterpreted function, constrained by axioms only
				sf.Uninterpreted = true
			} else {
				p.expect("=")
				sf.Body = p.parseExpr()
				p.eof()
			}
			f.SpecFuncs = append(f.SpecFuncs, sf)
		case "axiom":
			f.Axioms = append(f.Axioms, p.parseClause(l))
		case "owned":
			// owned type T   (pointers to T own a finite tree/list of T nodes: memory model M2)
			if p.ident() != "type" {
				p.fail("expected 'owned type'")
			}
			f.Owned = append(f.Owned, p.ident())
			p.eof()
		case "extern", "trusted", "func":
			fc := &FuncContract{Pos: l.pos, Loops: map[int]*LoopSpec{}}
			if kw == "extern" || kw == "trusted" {
				fc.Extern = kw == "extern"
				fc.Trusted = true
				if p.ident() != "func" {
					p.fail("expected 'func'")
				}
			}
			p.parseSignature(fc)
			p.eof()
			f.Funcs = append(f.Funcs, fc)
			cur = fc
		case "lemma":
			lm := &Lemma{Pos: l.pos}
			lm.Name = p.ident()
			if p.accept("[") {
				// type parameters: lemma name[T, U](...)
				for {
					lm.TParams = append(lm.TParams, p.ident())
					if !p.accept(",") {
						break
					}
				}
				p.expect("]")
			}
			lm.Params = p.parseParams()
			p.eof()
			f.Lemmas = append(f.Lemmas, lm)
			curLemma = lm
		case "invariant":
			// invariant type (s *T): expr
			if p.ident() != "type" {
				p.fail("expected 'invariant type'")
			}
			ti := &TypeInv{Pos: l.pos}
			p.expect("(")
			ti.Recv = p.ident()
			ti.Type = p.parseType()
			p.expect(")")
			p.expect(":")
			ti.E = &Clause{E: p.parseExpr(), Pos: l.pos, Text: l.text}
			p.eof()
			f.TypeInvs = append(f.TypeInvs, ti)
		case "monitor":
			// monitor (s *T) mu guards a, b, c
			m := &Monitor{Pos: l.pos}
			p.expect("(")
			m.Recv = p.ident()
			p.expect("*")
			m.Type = p.ident()
			p.expect(")")
			m.Mu = p.ident()
			if p.ident() != "guards" {
				p.fail("expected 'guards'")
			}
			for {
				m.Guards = append(m.Guards, p.ident())
				if !p.accept(",") {
					break
				}
			}
			p.eof()
			f.Monitors = append(f.Monitors, m)
			curMon = m
		case "directive":
			d := &Directive{Pos: l.pos, Kind: kw, Text: strings.TrimSpace(strings.TrimPrefix(l.text, kw))}
			for p.peek().kind != "eof" {
				d.Args = append(d.Args, p.next().text)
			}
			f.Dirs = append(f.Dirs, d)
		case "requires", "ensures", "assumes":
			c := p.parseClause(l)
			switch {
			case curMon != nil:
				p.fail("monitor takes 'invariant'")
			case curLemma != nil && kw == "requires":
				curLemma.Requires = append(curLemma.Requires, c)
			case curLemma != nil && kw == "ensures":
				curLemma.Ensures = append(curLemma.Ensures, c)
			case cur == nil:
				p.fail("clause outside of a function contract")
			case curBeh != nil && kw == "assumes":
				curBeh.Assumes = append(curBeh.Assumes, c)
			case curBeh != nil && kw == "ensures":
				curBeh.Ensures = append(curBeh.Ensures, c)
			case kw == "requires":
				cur.Requires = append(cur.Requires, c)
			case kw == "ensures":
				cur.Ensures = append(cur.Ensures, c)
			default:
				p.fail("'assumes' outside of a behavior")
			}
		case "assigns":
			if cur == nil {
				p.fail("assigns outside of a function contract")
			}
			cur.HasAssign = true
			if p.isIdent("nothing") {
				p.next()
			} else {
				for {
					cur.Assigns = append(cur.Assigns, p.parseExpr())
					if !p.accept(",") {
						break
					}
				}
			}
			p.eof()
		case "decreases":
			c := p.parseClause(l)
			if cur == nil {
				p.fail("decreases outside of a function contract")
			}
			cur.Decreases = c
		case "ghost":
			if cur == nil {
				p.fail("ghost outside of a function contract")
			}
			for {
				n := p.ident()
				t := p.parseType()
				if curBeh != nil {
					curBeh.Ghost = append(curBeh.Ghost, Param{n, t})
				} else {
					cur.Ghost = append(cur.Ghost, Param{n, t})
				}
				if !p.accept(",") {
					break
				}
			}
			p.eof()
		case "pure":
			cur.Pure = true
		case "mayalloc":
			cur.Mayalloc = true
		case "inv":
			if curMon == nil {
				p.fail("inv outside of a monitor")
			}
			curMon.Inv = append(curMon.Inv, p.parseClause(l))
		case "storerule":
			// storerule <field>: <expr over new, old and the receiver>
			if curMon == nil {
				p.fail("storerule outside of a monitor")
			}
			c := p.parseClause(l)
			if c.Label == "" {
				p.fail("storerule needs a field label")
			}
			curMon.StoreRules = append(curMon.StoreRules, c)
		case "lockrequires":
			if cur == nil {
				p.fail("lockrequires outside of a function contract")
			}
			cur.LockRequires = append(cur.LockRequires, p.parseClause(l))
		case "cases":
			if cur == nil {
				p.fail("cases outside of a function contract")
			}
			for {
				c := &Clause{Pos: l.pos, Text: l.text}
				c.E = p.parseExpr()
				cur.Cases = append(cur.Cases, c)
				if !p.accept(",") {
					break
				}
			}
			p.eof()
		case "uses":
			u := &Use{Pos: l.pos, Text: l.text}
			e := p.parseExpr()
			p.eof()
			c, ok := e.(*Call)
			if !ok {
				p.fail("uses: lemma application expected")
			}
			id, ok := c.Fun.(*Ident)
			if !ok {
				p.fail("uses: lemma name expected")
			}
			u.Name, u.Args = id.Name, c.Args
			switch {
			case curLemma != nil:
				curLemma.Uses = append(curLemma.Uses, u)
			case cur != nil:
				cur.Uses = append(cur.Uses, u)
			default:
				p.fail("uses outside of a contract or lemma")
			}
		case "consumes", "releases":
			if cur == nil {
				p.fail("%s outside of a function contract", kw)
			}
			for {
				n := p.ident()
				if kw == "consumes" {
					cur.Consumes = append(cur.Consumes, n)
				} else {
					cur.Releases = append(cur.Releases, n)
				}
				if !p.accept(",") {
					break
				}
			}
			p.eof()
		case "callghost":
			// callghost <call ordinal> name = expr, name = expr ...: ghost arguments of that call
			if cur == nil {
				p.fail("callghost outside of a function contract")
			}
			nt := p.next()
			n, aerr := strconv.Atoi(nt.text)
			if aerr != nil {
				p.fail("call ordinal expected")
			}
			if cur.CallGhost == nil {
				cur.CallGhost = map[int][]GhostArg{}
			}
			for {
				name := p.ident()
				p.expect("=")
				cur.CallGhost[n] = append(cur.CallGhost[n], GhostArg{Name: name, E: p.parseExpr(), Text: l.text})
				if !p.accept(",") {
					break
				}
			}
			p.eof()
		case "prop":
			for p.peek().kind != "eof" {
				cur.Props = append(cur.Props, p.next().text)
			}
		case "behavior":
			if cur == nil {
				p.fail("behavior outside of a function contract")
			}
			b := &Behavior{Name: p.ident()}
			p.accept(":")
			p.eof()
			cur.Behaviors = append(cur.Behaviors, b)
			curBeh = b
		case "loop":
			if cur == nil {
				p.fail("loop outside of a function contract")
			}
			nt := p.next()
			n, aerr := strconv.Atoi(nt.text)
			if aerr != nil {
				p.fail("loop ordinal expected")
			}
			ls := cur.Loops[n]
			if ls == nil {
				ls = &LoopSpec{}
				cur.Loops[n] = ls
			}
			what := p.ident()
			c := &Clause{Pos: l.pos, Text: l.text}
			if p.peek().kind == "ident" && p.peekN(1).kind == "op" && p.peekN(1).text == ":" {
				c.Label = p.ident()
				p.next()
			}
			c.E = p.parseExpr()
			p.eof()
			switch what {
			case "invariant":
				ls.Invariants = append(ls.Invariants, c)
			case "decreases":
				ls.Decreases = c
			default:
				p.fail("loop: expected invariant or decreases")
			}
		default:
			p.fail("unknown keyword %q", kw)
		}
		if kw == "invariant" && false {
			_ = curMon
		}
	}
	return f, nil
}

func (p *parser) eof() {
	if p.peek().kind != "eof" {
		p.fail("unexpected trailing %q", p.peek().text)
	}
}

func (p *parser) parseClause(l logical) *Clause {
	c := &Clause{Pos: l.pos, Text: l.text}
	if p.peek().kind == "ident" && p.peekN(1).kind == "op" && p.peekN(1).text == ":" {
		c.Label = p.ident()
		p.next()
	}
	c.E = p.parseExpr()
	p.eof()
	return c
}

func (p *parser) parseParams() []Param {
	p.expect("(")
	var out []Param
	if p.accept(")") {
		return out
	}
	for {
		// name [, name]* type   |  type (unnamed)
		var names []string
		save := p.p
		if p.peek().kind == "ident" && (p.peekN(1).kind == "ident" || p.peekN(1).text == "*" || p.peekN(1).text == "[" || p.peekN(1).text == "," || p.peekN(1).text == "...") && !(p.peekN(1).text == "[" && false) {
			names = append(names, p.ident())
			for p.isOp(",") && p.peekN(1).kind == "ident" && (p.peekN(2).kind == "ident" || p.peekN(2).text == "," || p.peekN(2).text == "*" || p.peekN(2).text == "[") {
				p.next()
				names = append(names, p.ident())
			}
			if p.isOp(",") || p.isOp(")") {
				// it was a list of unnamed types after all
				p.p = save
				names = nil
			}
		}
		variadic := p.accept("...")
		t := p.parseType()
		if variadic {
			t = &TypeExpr{Kind: "slice", Elem: t}
		}
		if names == nil {
			out = append(out, Param{Name: "", Type: t})
		}
		for _, n := range names {
			out = append(out, Param{Name: n, Type: t})
		}
		if !p.accept(",") {
			break
		}
	}
	p.expect(")")
	return out
}

func (p *parser) parseSignature(fc *FuncContract) {
	if p.isOp("(") {
		// receiver: (name *T) or (*T)
		p.next()
		if p.peek().kind == "ident" && (p.peekN(1).kind == "ident" || p.peekN(1).text == "*") {
			fc.RecvName = p.ident()
		}
		fc.RecvType = p.parseType()
		p.expect(")")
		p.accept(".")
	}
	// qualified name for extern: a/b/c.Name or (T).Name after a path
	name := p.ident()
	for p.isOp("/") || p.isOp(".") || p.isOp("-") {
		sep := p.next().text
		if sep == "." && p.isOp("(") {
			// pkg.(T).Method or pkg.(*T).Method
			p.next()
			fc.PkgPath = name
			fc.RecvType = p.parseType()
			p.expect(")")
			p.expect(".")
			name = p.ident()
			break
		}
		nx := p.ident()
		if sep == "." {
			if p.isOp("(") || p.peek().kind == "eof" {
				fc.PkgPath = name
				name = nx
				break
			}
			name = name + "." + nx
		} else {
			name = name + sep + nx
		}
	}
	fc.Name = name
	fc.Params = p.parseParams()
	if p.isOp("(") {
		fc.Results = p.parseParams()
	} else if p.peek().kind != "eof" {
		fc.Results = []Param{{Name: "", Type: p.parseType()}}
	}
}
