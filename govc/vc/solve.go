package vc

import (
	"bytes"
	"context"
	"fmt"
	"os"
	"strconv"
	osexec "os/exec"
	"path/filepath"
	"sort"
	"strings"
	"sync"
	"sync/atomic"
	"time"

	"govc/smt"
)

type Outcome struct {
	Q        *Query
	Status   string // proved | refuted | unknown | trivial | covered | uncovered
	Backend  string
	Time     float64
	Detail   string // solver output when not proved
	Model    string
	File     string
	Tried    []string
}

type SolveConfig struct {
	WorkDir string
	Timeout time.Duration
	Jobs    int
	Keep    bool
	Confirm bool // thorough: second solver must confirm quantifier-free obligations
	StopOnFail bool // selftest: one failed obligation is enough, skip the rest
	CrossCheck bool // let every racer finish and compare the answers (detects an unsound encoding or solver)
}

type solverSpec struct {
	name string
	cmd  []string
}

var solvers = map[string]solverSpec{
	"z3-new": {"z3-new", []string{"z3-new", "-smt2"}},
	"z3":     {"z3", []string{"z3", "-smt2"}},
	"cvc5":   {"cvc5", []string{"cvc5", "--lang=smt2", "-q"}},
}

// procSem bounds the number of solver processes that run at the same time, over all queries and
// racers of this process. The machine slows every process down sharply once more processes than
// cores are runnable (measured: 0.4 s alone, 2 s with 16, 5 s with 32 copies of the same query), and
// a timeout caused by the verifier's own load would be reported as an undischarged obligation. The
// budget of a solver run starts when it gets its slot.
var procSem = func() chan struct{} {
	n := 10
	if v, err := strconv.Atoi(os.Getenv("GOVC_PROCS")); err == nil && v > 0 {
		n = v
	}
	return make(chan struct{}, n)
}()

func runSolver(ctx context.Context, s solverSpec, file string, timeout time.Duration) (status string, out string, dur float64) {
	select {
	case procSem <- struct{}{}:
		defer func() { <-procSem }()
	case <-ctx.Done():
		return "timeout", "", 0
	}
	cctx, cancel := context.WithTimeout(ctx, timeout)
	defer cancel()
	args := append([]string{}, s.cmd[1:]...)
	switch s.name {
	case "z3", "z3-new", "z3-new-int":
		args = append(args, fmt.Sprintf("-T:%d", int(timeout.Seconds())+1))
	case "cvc5":
		args = append(args, fmt.Sprintf("--tlimit=%d", timeout.Milliseconds()))
	}
	args = append(args, file)
	cmd := osexec.CommandContext(cctx, s.cmd[0], args...)
	var buf bytes.Buffer
	cmd.Stdout = &buf
	cmd.Stderr = &buf
	t0 := time.Now()
	_ = cmd.Run()
	dur = time.Since(t0).Seconds()
	out = buf.String()
	first := strings.TrimSpace(firstLine(out))
	switch first {
	case "unsat", "sat", "unknown":
		return first, out, dur
	}
	if cctx.Err() != nil {
		return "timeout", out, dur
	}
	if strings.Contains(out, "timeout") {
		return "timeout", out, dur
	}
	return "error", out, dur
}

// assemble builds the assertion list for a query: hypotheses, global facts, negated goal.
func (p *Prog) assemble(q *Query) []*smt.Term {
	var as []*smt.Term
	as = append(as, q.Hyps...)
	as = append(as, smt.Not(q.Goal))
	// facts about error values
	var errs []*smt.Term
	for _, c := range smt.Consts(as...) {
		if c.Sort == IfaceSort && (p.errGlobals[c.Name] || strings.HasPrefix(c.Name, "errnew_")) {
			errs = append(errs, c)
		}
	}
	if len(errs) > 0 {
		as = append(as, smt.Distinct(append([]*smt.Term{NilIface}, errs...)...))
	}
	// defining axioms of named all-zero arrays
	for _, c := range smt.Consts(as...) {
		if ax, ok := p.T.ZeroAxiom[c.Name]; ok {
			as = append(as, ax)
		}
	}
	// global axioms (embedded-object references, boxing) about the functions that occur
	as = append(as, p.D.RelevantAxioms(as)...)
	return as
}

type prepared struct {
	q       *Query
	id      int
	trivial bool
	as      []*smt.Term // hypotheses, global facts, negated goal
	hasQ    bool
	base    string
	nfresh  int
	files   []string
	intFile map[string]string // bit-vector query file -> its integer encoding
}

// genMu serialises term construction and printing (the smt package is not thread-safe).
var genMu sync.Mutex

func (p *Prog) prepare(q *Query, cfg SolveConfig, id int) *prepared {
	pr := &prepared{q: q, id: id, base: filepath.Join(cfg.WorkDir, fmt.Sprintf("q%05d", id)), intFile: map[string]string{}}
	if q.Goal.IsTrue() && !q.Cover {
		pr.trivial = true
		return pr
	}
	genMu.Lock()
	defer genMu.Unlock()
	pr.as = p.assemble(q)
	pr.hasQ = smt.HasQuant(pr.as...)
	return pr
}

// gen writes the solver input for one instantiation level: rounds < 0 keeps the quantifiers
// (next to 2 rounds of instances); rounds >= 0 is quantifier-free with that many rounds.
func (p *Prog) gen(pr *prepared, rounds int) (file string, stillQuant bool) {
	genMu.Lock()
	defer genMu.Unlock()
	fresh := func(prefix string, s *smt.Sort) *smt.Term {
		pr.nfresh++
		return smt.Const(fmt.Sprintf("%s!%d", prefix, pr.nfresh), s)
	}
	inst := &smt.Inst{Fresh: fresh, Rounds: rounds, NoInst: rounds == 0}
	suffix := fmt.Sprintf(".l%d", rounds)
	if rounds < 0 {
		inst = &smt.Inst{Fresh: fresh, Rounds: 2, KeepQuant: true}
		suffix = ".q"
	}
	asserts := smt.Propagate(smt.TightenCompares(smt.Propagate(inst.Prepare(smt.Propagate(pr.as)))))
	q := pr.q
	txt := "; " + q.Ob + " path " + fmt.Sprint(q.PathNo) + " " + q.Pos.String() + "\n; " + q.Desc + "\n" +
		p.D.Script(asserts, smt.ScriptOpts{ProduceModels: !q.Cover && rounds >= 0})
	f := pr.base + suffix + ".smt2"
	_ = os.WriteFile(f, []byte(txt), 0o644)
	pr.files = append(pr.files, f)
	// the same query in the integer encoding (sound abstraction, see smt/toint.go)
	if !q.Cover && rounds >= 0 {
		if ias, ok := smt.ToInt(p.D, asserts); ok {
			itxt := "; integer encoding of " + q.Ob + " path " + fmt.Sprint(q.PathNo) + "\n; " + q.Desc + "\n" +
				p.D.Script(ias, smt.ScriptOpts{})
			fi := pr.base + suffix + ".int.smt2"
			_ = os.WriteFile(fi, []byte(itxt), 0o644)
			pr.files = append(pr.files, fi)
			pr.intFile[f] = fi
		}
	}
	return f, smt.HasQuant(asserts...)
}

// solve runs the solver portfolio on a prepared query.
func (p *Prog) solve(pr *prepared, cfg SolveConfig) *Outcome {
	q := pr.q
	o := &Outcome{Q: q}
	if pr.trivial {
		o.Status, o.Backend = "proved", "simplifier"
		return o
	}
	ctx := context.Background()
	cleanup := func() {
		if !cfg.Keep {
			for _, f := range pr.files {
				os.Remove(f)
			}
		}
	}
	if q.Cover {
		f, _ := p.gen(pr, 2)
		st, out, d := runSolver(ctx, solvers["z3-new"], f, cfg.Timeout)
		o.Time, o.Backend, o.File = d, "z3-new", f
		switch st {
		case "sat":
			o.Status = "covered"
		case "unsat":
			o.Status = "uncovered"
			o.Detail = out
		default:
			o.Status = "covered" // undecided reachability is not an alarm
			o.Detail = "undecided: " + firstLine(out)
		}
		if o.Status == "covered" {
			cleanup()
		}
		return o
	}
	var mu sync.Mutex
	run := func(sv, file, tag string, tmo time.Duration) string {
		st, out, d := runSolver(ctx, solvers[sv], file, tmo)
		if sv == "z3-new-int" && st == "sat" {
			st = "unknown"
		}
		mu.Lock()
		defer mu.Unlock()
		o.Time += d
		o.Tried = append(o.Tried, fmt.Sprintf("%s:%s:%.2fs", tag, st, d))
		if st == "unsat" && o.Status != "proved" {
			o.Status, o.Backend = "proved", tag
		}
		if st == "sat" {
			o.Model = out
		}
		if st != "unsat" {
			o.Detail += fmt.Sprintf("[%s] %s\n", tag, strings.TrimSpace(firstLine(out)))
		}
		return st
	}
	// instantiation levels: most obligations need none or few of the quantified facts
	levels := []int{0, 1, 2, 4}
	if !pr.hasQ {
		levels = []int{0}
	}
	last, lastFile := "", ""
	for i, lv := range levels {
		f, _ := p.gen(pr, lv)
		tmo := cfg.Timeout
		if i < len(levels)-1 && tmo > 4*time.Second {
			tmo = 4 * time.Second
		}
		if i == 0 && len(levels) > 1 && tmo > 2*time.Second {
			// goals that need quantified facts are often hard to refute without them: a short first
			// try (the full budget comes back as z3-new/L0-full if everything else fails)
			tmo = 2 * time.Second
		}
		// race z3-new and cvc5; the first "unsat" cancels the other
		rctx, cancel := context.WithCancel(ctx)
		res := make(chan [2]string, 4)
		race := func(sv string) {
			file, tag := f, sv
			if strings.HasSuffix(sv, "@int") {
				// integer encoding: a sound abstraction, used as a prover only ("sat" means nothing)
				file, sv = pr.intFile[f], strings.TrimSuffix(sv, "@int")
			}
			st, out, d := runSolver(rctx, solvers[sv], file, tmo)
			if tag != sv && st == "sat" {
				st = "unknown"
			}
			sv = tag
			mu.Lock()
			if rctx.Err() == nil || st == "unsat" || st == "sat" {
				o.Time += d
				o.Tried = append(o.Tried, fmt.Sprintf("%s/L%d:%s:%.2fs", sv, lv, st, d))
				if st == "unsat" && o.Status != "proved" {
					o.Status, o.Backend = "proved", sv
				}
				if st == "sat" && sv != "cvc5" {
					o.Model = out
				}
				if st != "unsat" {
					o.Detail += fmt.Sprintf("[%s/L%d] %s\n", sv, lv, strings.TrimSpace(firstLine(out)))
				}
			}
			mu.Unlock()
			if (st == "unsat" || st == "sat") && !cfg.CrossCheck {
				cancel()
			}
			res <- [2]string{sv, st}
		}
		// NOTE: z3's integer-blasting mode (smt.bv.solver=2) was tried as a third racer and removed:
		// it answered "unsat" on a satisfiable quantifier-free query (zero_extend of extract) and
		// "sat" on unsatisfiable ones, i.e. it is unsound in this z3 build.
		racers := []string{"z3-new", "cvc5"}
		for _, sv := range racers {
			go race(sv)
		}
		var rs [][2]string
		// the integer encoding joins the race when the bit-vector solvers have not answered quickly
		// (or at once when answers are being cross-checked)
		pending := len(racers)
		joined := pr.intFile[f] == ""
		join := func() {
			if !joined {
				joined = true
				pending += 2
				go race("z3-new@int")
				go race("cvc5@int")
			}
		}
		if cfg.CrossCheck {
			join()
		}
		timer := time.NewTimer(1200 * time.Millisecond)
		for pending > 0 {
			select {
			case r := <-res:
				rs = append(rs, r)
				pending--
				if pending == 0 && !joined && r[1] != "unsat" && r[1] != "sat" {
					decided := false
					for _, x := range rs {
						if x[1] == "unsat" || x[1] == "sat" {
							decided = true
						}
					}
					if !decided {
						join()
					}
				}
			case <-timer.C:
				decided := false
				for _, x := range rs {
					if x[1] == "unsat" || x[1] == "sat" {
						decided = true
					}
				}
				if !decided {
					join()
				}
			}
		}
		timer.Stop()
		cancel()
		last, lastFile = "unknown", f
		for _, r := range rs {
			if r[1] == "unsat" {
				last = "unsat"
			}
		}
		if cfg.CrossCheck && last == "unsat" {
			// every answer is in: a definite "sat" next to an "unsat" on the same level is an engine error
			for _, r := range rs {
				if r[1] == "sat" {
					o.Status = "engine-error"
					o.Detail += fmt.Sprintf("solver disagreement at level %d: %v\n", lv, rs)
					return o
				}
			}
		}
		if last != "unsat" {
			for _, r := range rs {
				if r[1] == "sat" {
					last = "sat"
				}
			}
		}
		o.File = f
		if last == "unsat" {
			break
		}
	}
	if last != "unsat" {
		var wg sync.WaitGroup
		qst := ""
		if last != "sat" {
			wg.Add(1)
			go func() { defer wg.Done(); run("z3", lastFile, "z3", cfg.Timeout) }()
			if pr.hasQ && len(levels) > 1 {
				// the smallest instantiation level had only a short budget: give it the full one
				// (some goals need none of the quantified facts but more than a few seconds)
				f0, _ := p.gen(pr, levels[0])
				wg.Add(1)
				go func() { defer wg.Done(); run("z3-new", f0, "z3-new/L0-full", cfg.Timeout) }()
				if len(levels) > 2 {
					// likewise the first instantiation round (the instances of loop invariants at the
					// goal's own terms): small, but large structs make it slower than the short budget
					f1, _ := p.gen(pr, levels[1])
					wg.Add(1)
					go func() { defer wg.Done(); run("z3-new", f1, "z3-new/L1-full", cfg.Timeout) }()
				}
			}
		}
		if pr.hasQ {
			fq, _ := p.gen(pr, -1)
			wg.Add(1)
			go func() { defer wg.Done(); qst = run("z3-new", fq, "z3-new(quantified)", cfg.Timeout) }()
		}
		if last != "sat" {
			// proof by cases on the conditions of the hypotheses (see split.go)
			wg.Add(1)
			go func() {
				defer wg.Done()
				if p.trySplit(pr, cfg, &mu, o) {
					mu.Lock()
					if o.Status != "proved" {
						o.Status, o.Backend = "proved", "case-split"
					}
					mu.Unlock()
				}
			}()
		}
		wg.Wait()
		if o.Status != "proved" {
			switch {
			case last == "sat" && (!pr.hasQ || qst == "sat"):
				o.Status = "refuted"
			case last == "sat":
				o.Status = "refuted-candidate" // sat on the instantiated weakening of the hypotheses
			default:
				o.Status = "unknown"
			}
		}
	} else if cfg.Confirm && !pr.hasQ {
		st2, _, d2 := runSolver(ctx, solvers["cvc5"], lastFile, cfg.Timeout)
		o.Tried = append(o.Tried, fmt.Sprintf("cvc5(confirm):%s:%.2fs", st2, d2))
		if st2 == "sat" {
			o.Status = "engine-error"
			o.Detail = "solver disagreement: z3-new unsat, cvc5 sat"
		}
	}
	if o.Status == "proved" {
		cleanup()
	}
	return o
}

// SolveAll discharges queries: files are generated sequentially, solvers run in parallel.
func (p *Prog) SolveAll(qs []*Query, cfg SolveConfig) []*Outcome {
	if cfg.Jobs <= 0 {
		cfg.Jobs = 12
	}
	_ = os.MkdirAll(cfg.WorkDir, 0o755)
	// a conjunctive goal is proved conjunct by conjunct, each one assuming the earlier ones
	var split []*Query
	for _, q := range qs {
		if q.Cover || q.Goal.Op != "and" {
			split = append(split, q)
			continue
		}
		hyps, labs := q.Hyps, q.HypLabs
		for i, g := range q.Goal.Args {
			nq := *q
			nq.Hyps, nq.HypLabs, nq.Goal = hyps, labs, g
			nq.Desc = fmt.Sprintf("%s [conjunct %d/%d]", q.Desc, i+1, len(q.Goal.Args))
			split = append(split, &nq)
			hyps = append(append([]*smt.Term{}, hyps...), g)
			labs = append(append([]string{}, labs...), "earlier conjunct of the goal")
		}
	}
	qs = split
	out := make([]*Outcome, len(qs))
	var wg sync.WaitGroup
	var stop atomic.Bool
	sem := make(chan struct{}, cfg.Jobs)
	for i, q := range qs {
		if cfg.StopOnFail && stop.Load() {
			out[i] = &Outcome{Q: q, Status: "skipped"}
			continue
		}
		pr := p.prepare(q, cfg, i)
		wg.Add(1)
		sem <- struct{}{}
		go func(i int, pr *prepared) {
			defer wg.Done()
			defer func() { <-sem }()
			if cfg.StopOnFail && stop.Load() {
				out[i] = &Outcome{Q: pr.q, Status: "skipped"}
				return
			}
			out[i] = p.solve(pr, cfg)
			if s := out[i].Status; s != "proved" && s != "covered" {
				stop.Store(true)
			}
		}(i, pr)
	}
	wg.Wait()
	return out
}

// Summaries

type ObSummary struct {
	Ob       string
	Status   string
	Paths    int
	Backends map[string]int
	Time     float64
	Worst    *Outcome
}

func Summarise(outs []*Outcome) []*ObSummary {
	m := map[string]*ObSummary{}
	var order []string
	rank := map[string]int{"proved": 0, "trivial": 0, "covered": 0, "skipped": 1, "unknown": 2, "refuted-candidate": 3, "refuted": 4, "uncovered": 4, "engine-error": 5}
	for _, o := range outs {
		s, ok := m[o.Q.Ob]
		if !ok {
			s = &ObSummary{Ob: o.Q.Ob, Status: o.Status, Backends: map[string]int{}, Worst: o}
			m[o.Q.Ob] = s
			order = append(order, o.Q.Ob)
		}
		s.Paths++
		s.Time += o.Time
		s.Backends[o.Backend]++
		if rank[o.Status] > rank[s.Status] {
			s.Status = o.Status
			s.Worst = o
		}
	}
	sort.Strings(order)
	var out []*ObSummary
	for _, k := range order {
		out = append(out, m[k])
	}
	return out
}
