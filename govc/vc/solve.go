package vc

import (
	"bytes"
	"context"
	"fmt"
	"os"
	osexec "os/exec"
	"path/filepath"
	"sort"
	"strings"
	"sync"
	"time"

	"govc/smt"
)

type Outcome struct {
	Q        *Query
	Status   string // proved | refuted | unknown | trivial | covered | uncovered
	Backend  string
	Time     float64
	Detail   string // solver output when not proved
	Model    string
	File     string
	Tried    []string
}

type SolveConfig struct {
	WorkDir string
	Timeout time.Duration
	Jobs    int
	Keep    bool
	Confirm bool // thorough: second solver must confirm quantifier-free obligations
}

type solverSpec struct {
	name string
	cmd  []string
}

var solvers = map[string]solverSpec{
	"z3-new": {"z3-new", []string{"z3-new", "-smt2"}},
	"z3":     {"z3", []string{"z3", "-smt2"}},
	"cvc5":   {"cvc5", []string{"cvc5", "--lang=smt2"}},
}

func runSolver(ctx context.Context, s solverSpec, file string, timeout time.Duration) (status string, out string, dur float64) {
	cctx, cancel := context.WithTimeout(ctx, timeout)
	defer cancel()
	args := append([]string{}, s.cmd[1:]...)
	switch s.name {
	case "z3", "z3-new":
		args = append(args, fmt.Sprintf("-T:%d", int(timeout.Seconds())+1))
	case "cvc5":
		args = append(args, fmt.Sprintf("--tlimit=%d", timeout.Milliseconds()))
	}
	args = append(args, file)
	cmd := osexec.CommandContext(cctx, s.cmd[0], args...)
	var buf bytes.Buffer
	cmd.Stdout = &buf
	cmd.Stderr = &buf
	t0 := time.Now()
	_ = cmd.Run()
	dur = time.Since(t0).Seconds()
	out = buf.String()
	first := strings.TrimSpace(firstLine(out))
	switch first {
	case "unsat", "sat", "unknown":
		return first, out, dur
	}
	if cctx.Err() != nil {
		return "timeout", out, dur
	}
	if strings.Contains(out, "timeout") {
		return "timeout", out, dur
	}
	return "error", out, dur
}

// assemble builds the assertion list for a query: hypotheses, global facts, negated goal.
func (p *Prog) assemble(q *Query) []*smt.Term {
	var as []*smt.Term
	as = append(as, q.Hyps...)
	as = append(as, smt.Not(q.Goal))
	// facts about error values
	var errs []*smt.Term
	for _, c := range smt.Consts(as...) {
		if c.Sort == IfaceSort && (p.errGlobals[c.Name] || strings.HasPrefix(c.Name, "errnew_")) {
			errs = append(errs, c)
		}
	}
	if len(errs) > 0 {
		as = append(as, smt.Distinct(append([]*smt.Term{NilIface}, errs...)...))
	}
	return as
}

type prepared struct {
	q       *Query
	id      int
	trivial bool
	fqf     string // instantiated, quantifier-free where possible
	fq      string // with quantifiers kept (only when the original has quantifiers)
	qfHasQ  bool
}

// prepare writes the solver input files of a query (sequential: term construction is not thread-safe).
func (p *Prog) prepare(q *Query, cfg SolveConfig, id int) *prepared {
	pr := &prepared{q: q, id: id}
	if q.Goal.IsTrue() && !q.Cover {
		pr.trivial = true
		return pr
	}
	as := p.assemble(q)
	n := 0
	fresh := func(prefix string, s *smt.Sort) *smt.Term {
		n++
		return smt.Const(fmt.Sprintf("%s!%d", prefix, n), s)
	}
	base := filepath.Join(cfg.WorkDir, fmt.Sprintf("q%05d", id))
	write := func(suffix string, asserts []*smt.Term, models bool) string {
		txt := "; " + q.Ob + " path " + fmt.Sprint(q.PathNo) + " " + q.Pos.String() + "\n" + p.D.Script(asserts, smt.ScriptOpts{ProduceModels: models})
		f := base + suffix + ".smt2"
		_ = os.WriteFile(f, []byte(txt), 0o644)
		return f
	}
	inst := &smt.Inst{Fresh: fresh}
	qf := inst.Prepare(as)
	pr.qfHasQ = smt.HasQuant(qf...)
	pr.fqf = write(".qf", qf, !q.Cover)
	if !q.Cover && smt.HasQuant(as...) {
		inst2 := &smt.Inst{Fresh: fresh, KeepQuant: true}
		pr.fq = write(".q", inst2.Prepare(as), false)
	}
	return pr
}

// solve runs the solver portfolio on a prepared query.
func (p *Prog) solve(pr *prepared, cfg SolveConfig) *Outcome {
	q := pr.q
	o := &Outcome{Q: q}
	if pr.trivial {
		o.Status, o.Backend = "proved", "simplifier"
		return o
	}
	ctx := context.Background()
	cleanup := func() {
		if !cfg.Keep {
			os.Remove(pr.fqf)
			if pr.fq != "" {
				os.Remove(pr.fq)
			}
		}
	}
	if q.Cover {
		st, out, d := runSolver(ctx, solvers["z3-new"], pr.fqf, cfg.Timeout)
		o.Time, o.Backend, o.File = d, "z3-new", pr.fqf
		switch st {
		case "sat":
			o.Status = "covered"
		case "unsat":
			o.Status = "uncovered"
			o.Detail = out
		default:
			o.Status = "covered" // undecided reachability is not an alarm
			o.Detail = "undecided: " + firstLine(out)
		}
		if o.Status == "covered" {
			cleanup()
		}
		return o
	}
	o.File = pr.fqf
	var mu sync.Mutex
	run := func(sv, file, tag string) string {
		st, out, d := runSolver(ctx, solvers[sv], file, cfg.Timeout)
		mu.Lock()
		defer mu.Unlock()
		o.Time += d
		o.Tried = append(o.Tried, fmt.Sprintf("%s:%s:%.2fs", tag, st, d))
		if st == "unsat" && o.Status != "proved" {
			o.Status, o.Backend = "proved", tag
		}
		if st == "sat" && o.Model == "" && file == pr.fqf {
			o.Model = out
		}
		if st != "unsat" {
			o.Detail += fmt.Sprintf("[%s] %s\n", tag, strings.TrimSpace(firstLine(out)))
		}
		return st
	}
	st1 := run("z3-new", pr.fqf, "z3-new")
	if st1 != "unsat" {
		var wg sync.WaitGroup
		if st1 != "sat" {
			wg.Add(2)
			go func() { defer wg.Done(); run("cvc5", pr.fqf, "cvc5") }()
			go func() { defer wg.Done(); run("z3", pr.fqf, "z3") }()
		}
		if pr.fq != "" {
			wg.Add(1)
			go func() { defer wg.Done(); run("z3-new", pr.fq, "z3-new(quantified)") }()
		}
		wg.Wait()
		if o.Status != "proved" {
			switch {
			case st1 == "sat" && pr.fq == "":
				o.Status = "refuted"
			case st1 == "sat":
				o.Status = "refuted-candidate" // sat on the instantiated weakening of the hypotheses
			default:
				o.Status = "unknown"
			}
		}
	} else if cfg.Confirm && !pr.qfHasQ {
		st2, _, d2 := runSolver(ctx, solvers["cvc5"], pr.fqf, cfg.Timeout)
		o.Tried = append(o.Tried, fmt.Sprintf("cvc5(confirm):%s:%.2fs", st2, d2))
		if st2 == "sat" {
			o.Status = "engine-error"
			o.Detail = "solver disagreement: z3-new unsat, cvc5 sat"
		}
	}
	if o.Status == "proved" {
		cleanup()
	}
	return o
}

// SolveAll discharges queries: files are generated sequentially, solvers run in parallel.
func (p *Prog) SolveAll(qs []*Query, cfg SolveConfig) []*Outcome {
	if cfg.Jobs <= 0 {
		cfg.Jobs = 12
	}
	_ = os.MkdirAll(cfg.WorkDir, 0o755)
	out := make([]*Outcome, len(qs))
	var wg sync.WaitGroup
	sem := make(chan struct{}, cfg.Jobs)
	for i, q := range qs {
		pr := p.prepare(q, cfg, i)
		wg.Add(1)
		sem <- struct{}{}
		go func(i int, pr *prepared) {
			defer wg.Done()
			defer func() { <-sem }()
			out[i] = p.solve(pr, cfg)
		}(i, pr)
	}
	wg.Wait()
	return out
}

// Summaries

type ObSummary struct {
	Ob       string
	Status   string
	Paths    int
	Backends map[string]int
	Time     float64
	Worst    *Outcome
}

func Summarise(outs []*Outcome) []*ObSummary {
	m := map[string]*ObSummary{}
	var order []string
	rank := map[string]int{"proved": 0, "trivial": 0, "covered": 0, "unknown": 2, "refuted-candidate": 3, "refuted": 4, "uncovered": 4, "engine-error": 5}
	for _, o := range outs {
		s, ok := m[o.Q.Ob]
		if !ok {
			s = &ObSummary{Ob: o.Q.Ob, Status: o.Status, Backends: map[string]int{}, Worst: o}
			m[o.Q.Ob] = s
			order = append(order, o.Q.Ob)
		}
		s.Paths++
		s.Time += o.Time
		s.Backends[o.Backend]++
		if rank[o.Status] > rank[s.Status] {
			s.Status = o.Status
			s.Worst = o
		}
	}
	sort.Strings(order)
	var out []*ObSummary
	for _, k := range order {
		out = append(out, m[k])
	}
	return out
}
