package vc

import (
	"go/token"
	"go/types"

	"govc/smt"
)

// shiftCount converts a shift count y (of type ty) to the width of x, saturating so
// that counts >= width keep SMT-LIB's (and Go's) "shift everything out" meaning.
func shiftCount(y *smt.Term, w int) *smt.Term {
	yw := y.Sort.W
	switch {
	case yw == w:
		return y
	case yw < w:
		return smt.ZeroExt(w-yw, y)
	default:
		big := smt.BVUge(y, smt.BVLit64(uint64(w), yw))
		return smt.Ite(big, smt.BVLit64(uint64(w), w), smt.Extract(w-1, 0, y))
	}
}

// intBinOp implements Go's integer binary operators on bit-vectors.
// For shifts, y may have a different width. Returns nil if the operator is not an integer operator.
func intBinOp(op token.Token, x, y *smt.Term, signed bool) *smt.Term {
	switch op {
	case token.ADD:
		return smt.BVAdd(x, y)
	case token.SUB:
		return smt.BVSub(x, y)
	case token.MUL:
		return smt.BVMul(x, y)
	case token.QUO:
		if signed {
			return smt.BVSdiv(x, y)
		}
		return smt.BVUdiv(x, y)
	case token.REM:
		if signed {
			return smt.BVSrem(x, y)
		}
		return smt.BVUrem(x, y)
	case token.AND:
		return smt.BVAnd(x, y)
	case token.OR:
		return smt.BVOr(x, y)
	case token.XOR:
		return smt.BVXor(x, y)
	case token.AND_NOT:
		return smt.BVAnd(x, smt.BVNot(y))
	case token.SHL:
		return smt.BVShl(x, shiftCount(y, x.Sort.W))
	case token.SHR:
		if signed {
			return smt.BVAshr(x, shiftCount(y, x.Sort.W))
		}
		return smt.BVLshr(x, shiftCount(y, x.Sort.W))
	}
	return nil
}

func intCmp(op token.Token, x, y *smt.Term, signed bool) *smt.Term {
	switch op {
	case token.EQL:
		return smt.Eq(x, y)
	case token.NEQ:
		return smt.Neq(x, y)
	case token.LSS:
		if signed {
			return smt.BVSlt(x, y)
		}
		return smt.BVUlt(x, y)
	case token.LEQ:
		if signed {
			return smt.BVSle(x, y)
		}
		return smt.BVUle(x, y)
	case token.GTR:
		if signed {
			return smt.BVSgt(x, y)
		}
		return smt.BVUgt(x, y)
	case token.GEQ:
		if signed {
			return smt.BVSge(x, y)
		}
		return smt.BVUge(x, y)
	}
	return nil
}

// convertInt converts an integer value between Go integer types.
func convertInt(x *smt.Term, from, to types.Type) *smt.Term {
	return smt.Resize(x, intWidth(to), isSigned(from))
}

var qcount int

// seqEq is content equality of n elements: forall k < n: a[ao+k] == b[bo+k].
func seqEq(a, ao, b, bo, n *smt.Term) *smt.Term {
	if n.IsLit() && n.Val.IsInt64() && n.Val.Int64() <= 16 {
		var cs []*smt.Term
		for i := int64(0); i < n.Val.Int64(); i++ {
			cs = append(cs, smt.Eq(smt.Select(a, smt.BVAdd(ao, bv64(i))), smt.Select(b, smt.BVAdd(bo, bv64(i)))))
		}
		return smt.And(cs...)
	}
	qcount++
	k := smt.BVar("k!"+itoa(qcount), BV64)
	return smt.Forall([]*smt.Term{k}, smt.Implies(smt.BVUlt(k, n),
		smt.Eq(smt.Select(a, smt.BVAdd(ao, k)), smt.Select(b, smt.BVAdd(bo, k)))))
}

// strEq is Go's string equality.
func strEq(x, y *smt.Term) *smt.Term {
	return smt.And(smt.Eq(StrLen(x), StrLen(y)), seqEq(StrArr(x), StrOff(x), StrArr(y), StrOff(y), StrLen(x)))
}

func itoa(i int) string {
	if i == 0 {
		return "0"
	}
	neg := i < 0
	if neg {
		i = -i
	}
	var b []byte
	for i > 0 {
		b = append([]byte{byte('0' + i%10)}, b...)
		i /= 10
	}
	if neg {
		b = append([]byte{'-'}, b...)
	}
	return string(b)
}

// strConst builds the Str value of a Go string constant.
func strConst(s string) *smt.Term {
	arr := smt.ConstArray(byteArr, smt.BVLit64(0, 8))
	for i := 0; i < len(s); i++ {
		arr = smt.Store(arr, bv64(int64(i)), smt.BVLit64(uint64(s[i]), 8))
	}
	return MkStr(arr, bv64(0), bv64(int64(len(s))))
}
