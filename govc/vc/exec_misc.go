package vc

import (
	"fmt"
	"go/types"

	"golang.org/x/tools/go/ssa"

	"govc/smt"
)

func (x *exec) sliceOfInlineArray(st *pstate, l *Loc, at *types.Array, lo, hi, limit *smt.Term) Val {
	unsupp("slicing an array that is a struct field or global")
	return nil
}

// ---- channels, select, goroutines
//
// Channel contents are not modelled. What is checked: a blocking operation never happens while a
// monitor lock is held (the code under verification would dead-lock or serialise on I/O), and the
// values received are arbitrary. Under a monitor, shared state is re-read after every Lock anyway.

func (x *exec) blocking(st *pstate, in ssa.Instruction, what string) {
	if x.monitor != nil && st.held["mu"] {
		x.emit(st, "nolock."+x.ord[in], "monitor", smt.False, in.Pos(), "blocking "+what+" while holding the monitor lock")
	}
}

func (x *exec) recv(st *pstate, in *ssa.UnOp) Val {
	x.blocking(st, in, "channel receive")
	et := in.X.Type().Underlying().(*types.Chan).Elem()
	v := x.env.FreshVal("recv", x.p.T.SortOf(et))
	st.assume(x.p.T.Inv(v, et, 0), "type invariant of received value")
	if in.CommaOk {
		return Tuple{x.wrap(v, et), x.env.Fresh("recvok", smt.Bool)}
	}
	return x.wrap(v, et)
}

func (x *exec) concurrency(st *pstate, in ssa.Instruction) bool {
	switch in := in.(type) {
	case *ssa.Select:
		if in.Blocking {
			x.blocking(st, in, "select")
		}
		// result: (index int, recvOk bool, r_0 T_0, ... r_n-1 T_n-1) for the receive states
		n := len(in.States)
		idx := x.env.Fresh("select$index", BV64)
		lo := int64(0)
		if !in.Blocking {
			lo = -1 // default case
		}
		st.assume(smt.And(smt.BVSge(idx, bv64(lo)), smt.BVSlt(idx, bv64(int64(n)))), "select chooses one of its cases")
		tup := Tuple{idx, x.env.Fresh("select$ok", smt.Bool)}
		for _, s := range in.States {
			if s.Dir == types.RecvOnly {
				et := s.Chan.Type().Underlying().(*types.Chan).Elem()
				v := x.env.FreshVal("select$recv", x.p.T.SortOf(et))
				tup = append(tup, x.wrap(v, et))
			}
		}
		x.set(st, in, tup)
		return false
	case *ssa.Send:
		x.blocking(st, in, "channel send")
		return false
	case *ssa.Go:
		unsupp("go statement")
	}
	unsupp("concurrency instruction %T", in)
	return false
}

func (x *exec) chanClose(st *pstate, args []Val, in ssa.Instruction) {
	// closing a channel has no effect on the modelled state
}

// ---- maps
//
// Map contents are not modelled (opaque maps): a lookup yields an arbitrary value of the element
// type and an arbitrary `ok`, an update changes nothing that is modelled, iteration yields arbitrary
// pairs an arbitrary number of times. That over-approximates every real map, so safety obligations
// (bounds, nil, preconditions of callees) proved under it hold; nothing that depends on what a map
// contains can be proved. Writing to a nil map is an obligation.

const opaqueMaps = "map contents are not modelled: every lookup and iteration step returns arbitrary values (sound for safety obligations only)"

func (x *exec) makeMap(st *pstate, in *ssa.MakeMap) Val {
	if x.exactMap(in) {
		return x.newLocalMap(st, in)
	}
	x.p.Assumptions[opaqueMaps] = true
	return x.env.Alloc(st.State)
}

func (x *exec) mapUpdate(st *pstate, in *ssa.MapUpdate) {
	if m, ok := x.val(st, in.Map).(*localMap); ok {
		ms := x.mapStateOf(st, m)
		k := x.toTerm(x.val(st, in.Key))
		v := x.toTerm(x.val(st, in.Value))
		st.maps[m.id] = &mapState{present: smt.Store(ms.present, k, smt.True), vals: smt.Store(ms.vals, k, v)}
		return
	}
	x.p.Assumptions[opaqueMaps] = true
	m := x.term(st, in.Map)
	if !(m.IsLit() && m.Val.Sign() > 0) {
		x.check(st, "nil."+x.ord[in], "nil", smt.Neq(m, smt.IntLit(0)), in.Pos(), "assignment to entry in nil map")
	}
}

func (x *exec) mapLookup(st *pstate, in *ssa.Lookup) Val {
	if m, ok := x.val(st, in.X).(*localMap); ok {
		ms := x.mapStateOf(st, m)
		k := x.toTerm(x.val(st, in.Index))
		present := smt.Select(ms.present, k)
		et := m.t.Elem()
		v := smt.Ite(present, smt.Select(ms.vals, k), x.p.T.Zero(et))
		if in.CommaOk {
			return Tuple{x.wrap(v, et), present}
		}
		return x.wrap(v, et)
	}
	x.p.Assumptions[opaqueMaps] = true
	et := in.X.Type().Underlying().(*types.Map).Elem()
	v := x.env.FreshVal("mapget", x.p.T.SortOf(et))
	st.assume(x.p.T.Inv(v, et, 0), "type invariant of a map element")
	x.assumeAllocated(st, v, et)
	if in.CommaOk {
		return Tuple{x.wrap(v, et), x.env.Fresh("mapok", smt.Bool)}
	}
	return x.wrap(v, et)
}

func (x *exec) mapLenVal(st *pstate, m Val, t *types.Map) Val {
	x.p.Assumptions[opaqueMaps] = true
	r := x.env.Fresh("maplen", BV64)
	st.assume(smt.And(smt.BVSge(r, bv64(0)), smt.BVUle(r, maxLen)), "len(map) is a length")
	return r
}

func (x *exec) mapDelete(st *pstate, args []Val, argTypes []types.Type, in ssa.Instruction) {
	if m, ok := args[0].(*localMap); ok {
		ms := x.mapStateOf(st, m)
		st.maps[m.id] = &mapState{present: smt.Store(ms.present, x.toTerm(args[1]), smt.False), vals: ms.vals}
		return
	}
	x.p.Assumptions[opaqueMaps] = true
}

func (x *exec) rangeInit(st *pstate, in *ssa.Range) Val {
	if _, ok := in.X.Type().Underlying().(*types.Map); ok {
		if m, isLocal := x.val(st, in.X).(*localMap); isLocal {
			return m
		}
		x.p.Assumptions[opaqueMaps] = true
		return x.term(st, in.X)
	}
	unsupp("range over %s", in.X.Type())
	return nil
}

func (x *exec) rangeNext(st *pstate, in *ssa.Next) Val {
	if in.IsString {
		unsupp("range over string")
	}
	tup := in.Type().(*types.Tuple)
	if m, isLocal := x.val(st, in.Iter).(*localMap); isLocal {
		// some entry of the map (or none: ok is arbitrary - the order and number of iterations are not modelled)
		ms := x.mapStateOf(st, m)
		ok := x.env.Fresh("rangeok", smt.Bool)
		k := x.env.FreshVal("rangekey", x.p.T.SortOf(m.t.Key()))
		st.assume(smt.Implies(ok, smt.Select(ms.present, k)), "range yields an entry of the map")
		out := Tuple{ok}
		if b, isBasic := tup.At(1).Type().(*types.Basic); isBasic && b.Kind() == types.Invalid {
			out = append(out, smt.False)
		} else {
			out = append(out, x.wrap(k, m.t.Key()))
		}
		if b, isBasic := tup.At(2).Type().(*types.Basic); isBasic && b.Kind() == types.Invalid {
			out = append(out, smt.False)
		} else {
			out = append(out, x.wrap(smt.Select(ms.vals, k), m.t.Elem()))
		}
		return out
	}
	out := Tuple{x.env.Fresh("rangeok", smt.Bool)}
	for i := 1; i < tup.Len(); i++ {
		t := tup.At(i).Type()
		if b, isBasic := t.(*types.Basic); isBasic && b.Kind() == types.Invalid {
			out = append(out, smt.False) // unused key or value
			continue
		}
		v := x.env.FreshVal("rangeval", x.p.T.SortOf(t))
		st.assume(x.p.T.Inv(v, t, 0), "type invariant of a map element")
		x.assumeAllocated(st, v, t)
		out = append(out, x.wrap(v, t))
	}
	return out
}

var _ = fmt.Sprintf
