package vc

import (
	"go/types"

	"golang.org/x/tools/go/ssa"

	"govc/smt"
)

func (x *exec) sliceOfInlineArray(st *pstate, l *Loc, at *types.Array, lo, hi, limit *smt.Term) Val {
	unsupp("slicing an array that is a struct field or global")
	return nil
}

func (x *exec) recv(st *pstate, in *ssa.UnOp) Val {
	unsupp("channel receive")
	return nil
}

func (x *exec) concurrency(st *pstate, in ssa.Instruction) bool {
	unsupp("concurrency instruction %T", in)
	return false
}

func (x *exec) chanClose(st *pstate, args []Val, in ssa.Instruction) {
	unsupp("close of channel")
}

// ---- maps (filled in by maps.go once needed)

func (x *exec) makeMap(st *pstate, in *ssa.MakeMap) Val {
	unsupp("make(map)")
	return nil
}
func (x *exec) mapUpdate(st *pstate, in *ssa.MapUpdate) { unsupp("map update") }
func (x *exec) mapLookup(st *pstate, in *ssa.Lookup) Val {
	unsupp("map lookup")
	return nil
}
func (x *exec) mapLenVal(st *pstate, m Val, t *types.Map) Val {
	unsupp("len(map)")
	return nil
}
func (x *exec) mapDelete(st *pstate, args []Val, argTypes []types.Type, in ssa.Instruction) {
	unsupp("delete(map)")
}
func (x *exec) rangeInit(st *pstate, in *ssa.Range) Val {
	unsupp("range over %s", in.X.Type())
	return nil
}
func (x *exec) rangeNext(st *pstate, in *ssa.Next) Val {
	unsupp("range next")
	return nil
}

// ---- monitors (filled in by monitor.go once needed)

type monitorInfo struct{}

func (x *exec) setupMonitor(st *pstate)                                                {}
func (x *exec) monitorAccess(st *pstate, l *Loc, in ssa.Instruction, write bool)        {}
func (x *exec) monitorExit(st *pstate, in ssa.Instruction)                              {}
func (x *exec) monitorCovers(l *Loc) *smt.Term                                          { return nil }
func (x *exec) monitorCallPre(st *pstate, c *Contract, callee *ssa.Function, args []Val, in ssa.Instruction)  {}
func (x *exec) monitorCallPost(st *pstate, c *Contract, callee *ssa.Function, args []Val, in ssa.Instruction) {}
func (x *exec) monitorSpecial(st *pstate, key string, callee *ssa.Function, cc *ssa.CallCommon, args []Val, in ssa.Instruction) (Val, bool, bool) {
	return nil, false, false
}
