package vc

import (
	"fmt"
	"go/types"

	"golang.org/x/tools/go/ssa"

	"govc/smt"
)

func (x *exec) sliceOfInlineArray(st *pstate, l *Loc, at *types.Array, lo, hi, limit *smt.Term) Val {
	unsupp("slicing an array that is a struct field or global")
	return nil
}

// ---- channels, select, goroutines
//
// Channel contents are not modelled. What is checked: a blocking operation never happens while a
// monitor lock is held (the code under verification would dead-lock or serialise on I/O), and the
// values received are arbitrary. Under a monitor, shared state is re-read after every Lock anyway.

func (x *exec) blocking(st *pstate, in ssa.Instruction, what string) {
	if x.monitor != nil && st.held["mu"] {
		x.emit(st, "nolock."+x.ord[in], "monitor", smt.False, in.Pos(), "blocking "+what+" while holding the monitor lock")
	}
}

func (x *exec) recv(st *pstate, in *ssa.UnOp) Val {
	x.blocking(st, in, "channel receive")
	et := in.X.Type().Underlying().(*types.Chan).Elem()
	v := x.env.FreshVal("recv", x.p.T.SortOf(et))
	st.assume(x.p.T.Inv(v, et, 0), "type invariant of received value")
	if in.CommaOk {
		return Tuple{x.wrap(v, et), x.env.Fresh("recvok", smt.Bool)}
	}
	return x.wrap(v, et)
}

func (x *exec) concurrency(st *pstate, in ssa.Instruction) bool {
	switch in := in.(type) {
	case *ssa.Select:
		if in.Blocking {
			x.blocking(st, in, "select")
		}
		// result: (index int, recvOk bool, r_0 T_0, ... r_n-1 T_n-1) for the receive states
		n := len(in.States)
		idx := x.env.Fresh("select$index", BV64)
		lo := int64(0)
		if !in.Blocking {
			lo = -1 // default case
		}
		st.assume(smt.And(smt.BVSge(idx, bv64(lo)), smt.BVSlt(idx, bv64(int64(n)))), "select chooses one of its cases")
		tup := Tuple{idx, x.env.Fresh("select$ok", smt.Bool)}
		for _, s := range in.States {
			if s.Dir == types.RecvOnly {
				et := s.Chan.Type().Underlying().(*types.Chan).Elem()
				v := x.env.FreshVal("select$recv", x.p.T.SortOf(et))
				tup = append(tup, x.wrap(v, et))
			}
		}
		x.set(st, in, tup)
		return false
	case *ssa.Send:
		x.blocking(st, in, "channel send")
		return false
	case *ssa.Go:
		unsupp("go statement")
	}
	unsupp("concurrency instruction %T", in)
	return false
}

func (x *exec) chanClose(st *pstate, args []Val, in ssa.Instruction) {
	// closing a channel has no effect on the modelled state
}

// ---- maps (filled in by maps.go once needed)

func (x *exec) makeMap(st *pstate, in *ssa.MakeMap) Val {
	unsupp("make(map)")
	return nil
}
func (x *exec) mapUpdate(st *pstate, in *ssa.MapUpdate) { unsupp("map update") }
func (x *exec) mapLookup(st *pstate, in *ssa.Lookup) Val {
	unsupp("map lookup")
	return nil
}
func (x *exec) mapLenVal(st *pstate, m Val, t *types.Map) Val {
	unsupp("len(map)")
	return nil
}
func (x *exec) mapDelete(st *pstate, args []Val, argTypes []types.Type, in ssa.Instruction) {
	unsupp("delete(map)")
}
func (x *exec) rangeInit(st *pstate, in *ssa.Range) Val {
	unsupp("range over %s", in.X.Type())
	return nil
}
func (x *exec) rangeNext(st *pstate, in *ssa.Next) Val {
	unsupp("range next")
	return nil
}

var _ = fmt.Sprintf
