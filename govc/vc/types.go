package vc

import (
	"fmt"
	"go/types"
	"strings"

	"govc/smt"
)

// Sorts shared by every query.
var (
	BV64 = smt.BV(64)
	BV8  = smt.BV(8)
	BV32 = smt.BV(32)

	byteArr = smt.Array(BV64, BV8)

	strCtor   = &smt.Ctor{Name: "mk-str", Fields: []smt.Field{{Name: "str-arr", Sort: byteArr}, {Name: "str-off", Sort: BV64}, {Name: "str-len", Sort: BV64}}}
	StrSort   = smt.NewData("Str", strCtor)
	sliceCtor = &smt.Ctor{Name: "mk-slice", Fields: []smt.Field{{Name: "sl-ref", Sort: smt.Int}, {Name: "sl-off", Sort: BV64}, {Name: "sl-len", Sort: BV64}, {Name: "sl-cap", Sort: BV64}}}
	SliceSort = smt.NewData("Slice", sliceCtor)
	ifaceCtor = &smt.Ctor{Name: "mk-iface", Fields: []smt.Field{{Name: "if-typ", Sort: smt.Int}, {Name: "if-val", Sort: smt.Int}}}
	IfaceSort = smt.NewData("Iface", ifaceCtor)
)

func MkStr(arr, off, ln *smt.Term) *smt.Term   { return smt.MkCtor(StrSort, strCtor, arr, off, ln) }
func StrArr(s *smt.Term) *smt.Term             { return smt.Acc(StrSort, strCtor, 0, s) }
func StrOff(s *smt.Term) *smt.Term             { return smt.Acc(StrSort, strCtor, 1, s) }
func StrLen(s *smt.Term) *smt.Term             { return smt.Acc(StrSort, strCtor, 2, s) }
func MkSlice(ref, off, ln, cp *smt.Term) *smt.Term { return smt.MkCtor(SliceSort, sliceCtor, ref, off, ln, cp) }
func SlRef(s *smt.Term) *smt.Term              { return smt.Acc(SliceSort, sliceCtor, 0, s) }
func SlOff(s *smt.Term) *smt.Term              { return smt.Acc(SliceSort, sliceCtor, 1, s) }
func SlLen(s *smt.Term) *smt.Term              { return smt.Acc(SliceSort, sliceCtor, 2, s) }
func SlCap(s *smt.Term) *smt.Term              { return smt.Acc(SliceSort, sliceCtor, 3, s) }
func MkIface(typ, val *smt.Term) *smt.Term     { return smt.MkCtor(IfaceSort, ifaceCtor, typ, val) }
func IfTyp(s *smt.Term) *smt.Term              { return smt.Acc(IfaceSort, ifaceCtor, 0, s) }
func IfVal(s *smt.Term) *smt.Term              { return smt.Acc(IfaceSort, ifaceCtor, 1, s) }

var NilIface = MkIface(smt.IntLit(0), smt.IntLit(0))
var NilSlice = MkSlice(smt.IntLit(0), smt.BVLit64(0, 64), smt.BVLit64(0, 64), smt.BVLit64(0, 64))

func bv64(v int64) *smt.Term { return smt.BVLitI(v, 64) }

// maxLen is the address-space bound of the slice/string type invariant (2^48).
var maxLen = smt.BVLit64(1<<48, 64)

// structInfo describes the datatype of a Go struct type.
type structInfo struct {
	Sort   *smt.Sort
	Ctor   *smt.Ctor
	Fields []*types.Var
}

type Types struct {
	D       *smt.Decls
	structs map[string]*structInfo
	sorts   map[string]*smt.Sort // by types.TypeString
	typeIDs map[string]int
	faCount int
	ZeroAxiom map[string]*smt.Term // defining axioms of named all-zero arrays (see ZeroArray)
	tpSorts map[string]*smt.Sort
	ownedDecl map[string]bool
	owned     map[string]*ownedInfo
}

func NewTypes(d *smt.Decls) *Types {
	d.AddSort(StrSort)
	d.AddSort(SliceSort)
	d.AddSort(IfaceSort)
	return &Types{D: d, structs: map[string]*structInfo{}, sorts: map[string]*smt.Sort{}, typeIDs: map[string]int{}, tpSorts: map[string]*smt.Sort{}}
}

type unsupported struct{ msg string }

func unsupp(f string, a ...any) { panic(unsupported{fmt.Sprintf(f, a...)}) }

func sanitize(s string) string {
	var sb strings.Builder
	for _, c := range s {
		switch {
		case c >= 'a' && c <= 'z', c >= 'A' && c <= 'Z', c >= '0' && c <= '9', c == '_':
			sb.WriteRune(c)
		case c == '.', c == '/':
			sb.WriteRune('_')
		case c == '*':
			sb.WriteString("P")
		case c == '[':
			sb.WriteString("L")
		case c == ']':
			sb.WriteString("R")
		case c == ' ', c == ',':
		default:
			sb.WriteString("_")
		}
	}
	return sb.String()
}

// typeKey gives a stable name for a type; generic instantiations are keyed by origin
// (generic bodies are verified once with uninterpreted parameter sorts).
func typeKey(t types.Type) string {
	t = types.Unalias(t)
	return types.TypeString(t, func(p *types.Package) string { return p.Path() })
}

func (ts *Types) TypeID(t types.Type) *smt.Term {
	k := typeKey(t)
	id, ok := ts.typeIDs[k]
	if !ok {
		id = len(ts.typeIDs) + 1
		ts.typeIDs[k] = id
	}
	return smt.IntLit(int64(id))
}

func isSigned(t types.Type) bool {
	b, ok := t.Underlying().(*types.Basic)
	return ok && b.Info()&types.IsInteger != 0 && b.Info()&types.IsUnsigned == 0
}

func isInteger(t types.Type) bool {
	b, ok := t.Underlying().(*types.Basic)
	return ok && b.Info()&types.IsInteger != 0
}

func intWidth(t types.Type) int {
	b, ok := t.Underlying().(*types.Basic)
	if !ok {
		return 0
	}
	switch b.Kind() {
	case types.Int8, types.Uint8:
		return 8
	case types.Int16, types.Uint16:
		return 16
	case types.Int32, types.Uint32:
		return 32
	case types.Int, types.Uint, types.Int64, types.Uint64, types.Uintptr, types.UntypedInt, types.UntypedRune:
		return 64
	}
	return 0
}

func isString(t types.Type) bool {
	b, ok := t.Underlying().(*types.Basic)
	return ok && b.Info()&types.IsString != 0
}

func isFloat(t types.Type) bool {
	b, ok := t.Underlying().(*types.Basic)
	return ok && b.Info()&types.IsFloat != 0
}

func isBool(t types.Type) bool {
	b, ok := t.Underlying().(*types.Basic)
	return ok && b.Info()&types.IsBoolean != 0
}

func (ts *Types) SortOf(t types.Type) *smt.Sort {
	t = types.Unalias(t) // `type A = B`: one sort for both names
	k := typeKey(t)
	if s, ok := ts.sorts[k]; ok {
		return s
	}
	s := ts.sortOf(t)
	ts.sorts[k] = s
	return s
}

func (ts *Types) sortOf(t types.Type) *smt.Sort {
	if tp, ok := t.(*types.TypeParam); ok {
		n := "TP_" + sanitize(tp.Obj().Name())
		if s, ok := ts.tpSorts[n]; ok {
			return s
		}
		s := smt.Uninterp(n)
		ts.D.AddSort(s)
		ts.tpSorts[n] = s
		return s
	}
	switch u := t.Underlying().(type) {
	case *types.Basic:
		switch {
		case u.Info()&types.IsBoolean != 0:
			return smt.Bool
		case u.Info()&types.IsInteger != 0:
			return smt.BV(intWidth(t))
		case u.Info()&types.IsString != 0:
			return StrSort
		case u.Kind() == types.Float32:
			return BV32
		case u.Kind() == types.Float64, u.Kind() == types.UntypedFloat:
			return BV64
		case u.Kind() == types.UnsafePointer:
			return smt.Int
		case u.Kind() == types.UntypedNil:
			return smt.Int
		}
	case *types.Pointer, *types.Map, *types.Chan, *types.Signature:
		if oi := ts.OwnedOf(t); oi != nil {
			return oi.Sort
		}
		return smt.Int
	case *types.Slice:
		return SliceSort
	case *types.Interface:
		return IfaceSort
	case *types.Array:
		return smt.Array(BV64, ts.SortOf(u.Elem()))
	case *types.Struct:
		return ts.StructOf(t).Sort
	case *types.Tuple:
		unsupp("tuple has no sort")
	}
	unsupp("no sort for type %s", t)
	return nil
}

func (ts *Types) StructOf(t types.Type) *structInfo {
	t = types.Unalias(t)
	// key by origin for generics
	key := typeKey(t)
	if n, ok := t.(*types.Named); ok && n.TypeArgs().Len() > 0 {
		key = typeKey(n.Origin())
		t = n.Origin()
	}
	if si, ok := ts.structs[key]; ok {
		return si
	}
	st := t.Underlying().(*types.Struct)
	name := "S_" + sanitize(key)
	if len(name) > 80 {
		name = fmt.Sprintf("%s_%d", name[:60], len(ts.structs))
	}
	si := &structInfo{}
	ts.structs[key] = si // allow recursion through pointers (pointers are Int, so no sort cycle)
	ctor := &smt.Ctor{Name: "mk-" + name}
	for i := 0; i < st.NumFields(); i++ {
		f := st.Field(i)
		ctor.Fields = append(ctor.Fields, smt.Field{Name: fmt.Sprintf("%s-%s", name, sanitize(f.Name())), Sort: ts.SortOf(f.Type())})
		si.Fields = append(si.Fields, f)
	}
	si.Ctor = ctor
	si.Sort = smt.NewData(name, ctor)
	ts.D.AddSort(si.Sort)
	return si
}

// elemKey names the heap of backing arrays for an element sort.
func heapName(prefix string, s *smt.Sort) string {
	return prefix + "$" + sanitize(s.Name)
}

// Zero is the zero value of a type.
func (ts *Types) Zero(t types.Type) *smt.Term {
	t = types.Unalias(t)
	if _, ok := t.(*types.TypeParam); ok {
		s := ts.SortOf(t)
		return smt.Const("zero$"+s.Name, s)
	}
	switch u := t.Underlying().(type) {
	case *types.Basic:
		switch {
		case u.Info()&types.IsBoolean != 0:
			return smt.False
		case u.Info()&types.IsInteger != 0:
			return smt.BVLit64(0, intWidth(t))
		case u.Info()&types.IsString != 0:
			return MkStr(smt.ConstArray(byteArr, smt.BVLit64(0, 8)), bv64(0), bv64(0))
		case u.Kind() == types.Float32:
			return smt.BVLit64(0, 32)
		case u.Kind() == types.Float64:
			return smt.BVLit64(0, 64)
		default:
			return smt.IntLit(0)
		}
	case *types.Pointer, *types.Map, *types.Chan, *types.Signature:
		if oi := ts.OwnedOf(t); oi != nil {
			return oi.NilTerm()
		}
		return smt.IntLit(0)
	case *types.Slice:
		return NilSlice
	case *types.Interface:
		return NilIface
	case *types.Array:
		return ts.ZeroArray(u.Elem())
	case *types.Struct:
		si := ts.StructOf(t)
		var args []*smt.Term
		for _, f := range si.Fields {
			args = append(args, ts.Zero(f.Type()))
		}
		return smt.MkCtor(si.Sort, si.Ctor, args...)
	}
	unsupp("no zero for %s", t)
	return nil
}

// ZeroArray is the array (indexed by BV64) all of whose elements are the zero value of elem.
// For element sorts whose zero is not a literal (type parameters) a named array with a defining
// axiom is used, because solvers accept only values in `(as const ...)`.
func (ts *Types) ZeroArray(elem types.Type) *smt.Term {
	es := ts.SortOf(elem)
	z := ts.Zero(elem)
	as := smt.Array(BV64, es)
	if _, ok := elem.(*types.TypeParam); !ok {
		return smt.ConstArray(as, z)
	}
	name := "zeroarr$" + es.Name
	arr := smt.Const(name, as)
	if ts.ZeroAxiom == nil {
		ts.ZeroAxiom = map[string]*smt.Term{}
	}
	if _, ok := ts.ZeroAxiom[name]; !ok {
		j := smt.BVar("j!za", BV64)
		ts.ZeroAxiom[name] = smt.Forall([]*smt.Term{j}, smt.Eq(smt.Select(arr, j), z), smt.Select(arr, j))
	}
	return arr
}

// Inv is the type invariant assumed for every value of type t that comes from
// outside (parameters, heap loads, call results): slice and string headers are
// within the 2^48 address-space bound, references are non-negative.
func (ts *Types) Inv(v *smt.Term, t types.Type, depth int) *smt.Term {
	t = types.Unalias(t)
	if depth > 3 {
		return smt.True
	}
	switch u := t.Underlying().(type) {
	case *types.Basic:
		if u.Info()&types.IsString != 0 {
			return smt.And(smt.BVUle(StrLen(v), maxLen), smt.BVUle(StrOff(v), maxLen))
		}
	case *types.Slice:
		return smt.And(
			smt.BVUle(SlLen(v), SlCap(v)), smt.BVUle(SlCap(v), maxLen), smt.BVUle(SlOff(v), maxLen),
			smt.IGe(SlRef(v), smt.IntLit(0)),
			smt.Implies(smt.Eq(SlRef(v), smt.IntLit(0)), smt.Eq(SlCap(v), bv64(0))))
	case *types.Map, *types.Chan:
		return smt.IGe(v, smt.IntLit(0))
	case *types.Pointer:
		// no constraint: references of embedded objects (fields of struct type) are negative
		return smt.True
	case *types.Struct:
		if _, ok := t.(*types.TypeParam); ok {
			return smt.True
		}
		si := ts.StructOf(t)
		var cs []*smt.Term
		for i, f := range si.Fields {
			cs = append(cs, ts.Inv(smt.Acc(si.Sort, si.Ctor, i, v), f.Type(), depth+1))
		}
		return smt.And(cs...)
	}
	return smt.True
}

// ---- owned recursive structures (memory model M2)
//
// A struct type declared `owned type T` in a contract file is the node type of a tree-shaped
// structure: every node is referenced by exactly one pointer (its owner), so the structure below a
// pointer is a value. Pointers to such a type have the sort of a recursive datatype
//     Own_T = nil | node(fields of T)
// instead of being references into a heap. The executor checks the ownership discipline that makes
// this reading sound (see owned.go).

type ownedInfo struct {
	Sort   *smt.Sort
	Nil    *smt.Ctor
	Node   *smt.Ctor
	Fields []*types.Var
	Elem   types.Type
	Self   []bool // field i is a pointer to the same node type
}

// DeclareOwned marks the (origin) named struct type as owned.
func (ts *Types) DeclareOwned(t types.Type) {
	if ts.ownedDecl == nil {
		ts.ownedDecl = map[string]bool{}
		ts.owned = map[string]*ownedInfo{}
	}
	if n, ok := t.(*types.Named); ok {
		t = n.Origin()
	}
	ts.ownedDecl[typeKey(t)] = true
}

// OwnedOf returns the datatype description if t is a pointer to an owned struct type, else nil.
func (ts *Types) OwnedOf(t types.Type) *ownedInfo {
	if ts.ownedDecl == nil || t == nil {
		return nil
	}
	pt, ok := t.Underlying().(*types.Pointer)
	if !ok {
		return nil
	}
	n, ok := pt.Elem().(*types.Named)
	if !ok {
		return nil
	}
	if !ts.ownedDecl[typeKey(n.Origin())] {
		return nil
	}
	// one datatype per instantiation; instantiations are told apart by the sorts of their type
	// arguments (the uninstantiated generic type counts as instantiated with its own parameters)
	key := typeKey(n.Origin()) + "<"
	if n.TypeArgs().Len() > 0 {
		for i := 0; i < n.TypeArgs().Len(); i++ {
			key += ts.SortOf(n.TypeArgs().At(i)).Name + ","
		}
	} else if tps := n.TypeParams(); tps != nil {
		for i := 0; i < tps.Len(); i++ {
			key += ts.SortOf(tps.At(i)).Name + ","
		}
	}
	if oi, ok := ts.owned[key]; ok {
		return oi
	}
	st, ok := n.Underlying().(*types.Struct)
	if !ok {
		unsupp("owned type %s is not a struct", n)
	}
	name := "Own_" + sanitize(key)
	if len(name) > 80 {
		name = fmt.Sprintf("%s_%d", name[:60], len(ts.owned))
	}
	oi := &ownedInfo{Elem: n}
	ts.owned[key] = oi
	oi.Nil = &smt.Ctor{Name: "nil$" + name}
	oi.Node = &smt.Ctor{Name: "node$" + name}
	oi.Sort = smt.NewData(name, oi.Nil, oi.Node)
	for i := 0; i < st.NumFields(); i++ {
		f := st.Field(i)
		var fs *smt.Sort
		self := false
		if fpt, ok := f.Type().Underlying().(*types.Pointer); ok && sameOrigin(fpt.Elem(), n) {
			fs = oi.Sort
			self = true
		} else {
			fs = ts.SortOf(f.Type())
		}
		oi.Node.Fields = append(oi.Node.Fields, smt.Field{Name: fmt.Sprintf("%s-%s", name, sanitize(f.Name())), Sort: fs})
		oi.Fields = append(oi.Fields, f)
		oi.Self = append(oi.Self, self)
	}
	ts.D.AddSort(oi.Sort)
	return oi
}

func sameOrigin(a types.Type, n *types.Named) bool {
	an, ok := a.(*types.Named)
	return ok && an.Origin() == n.Origin()
}

func (oi *ownedInfo) NilTerm() *smt.Term { return smt.MkCtor(oi.Sort, oi.Nil) }

func (oi *ownedInfo) IsNil(t *smt.Term) *smt.Term { return smt.Is(oi.Nil, t) }

func (oi *ownedInfo) Field(i int, t *smt.Term) *smt.Term { return smt.Acc(oi.Sort, oi.Node, i, t) }
