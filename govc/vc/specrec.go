package vc

import (
	"go/types"
	"sort"
	"strings"

	"govc/smt"
	"govc/spec"
)

// Recursive and uninterpreted specification functions.
//
// A specification function whose body mentions itself (th, avl, bst ... over owned trees) cannot be
// inlined. It becomes an uninterpreted function symbol of the logic, one per combination of argument
// sorts (generic definitions are used at several instantiations), and every closed application that
// appears in a specification contributes its own definition, unfolded to a fixed depth, as a fact:
//     f(args) = body[args]         (nested recursive applications are unfolded again, up to maxUnfold)
// These facts are ground, so the solver needs no quantifier reasoning for them. The definitions are
// assumed to be well-founded: recursion must go through a field of an owned parameter (checked
// syntactically) underneath a test that excludes nil (not checked; the cover obligation of every
// function would fail if the definitions were contradictory on the terms in play).
//
// A `spec func` without body is uninterpreted; what is known about it comes from `axiom` items.

const maxUnfold = 3

func exprMentions(x spec.Expr, name string) bool {
	found := false
	var walk func(x spec.Expr)
	walk = func(x spec.Expr) {
		if x == nil || found {
			return
		}
		switch x := x.(type) {
		case *spec.Unary:
			walk(x.X)
		case *spec.Binary:
			walk(x.X)
			walk(x.Y)
		case *spec.Cond:
			walk(x.C)
			walk(x.A)
			walk(x.B)
		case *spec.Call:
			if id, ok := x.Fun.(*spec.Ident); ok && id.Name == name {
				found = true
				return
			}
			walk(x.Fun)
			for _, a := range x.Args {
				walk(a)
			}
		case *spec.Index:
			walk(x.X)
			walk(x.I)
		case *spec.SliceE:
			walk(x.X)
			walk(x.Lo)
			walk(x.Hi)
		case *spec.Selector:
			walk(x.X)
		case *spec.Quant:
			walk(x.Body)
		case *spec.Let:
			walk(x.Val)
			walk(x.Body)
		case *spec.TypeAssert:
			walk(x.X)
		}
	}
	walk(x)
	return found
}

// selfCalls collects the argument lists of the applications of name in x.
func selfCalls(x spec.Expr, name string, out *[][]spec.Expr) {
	var walk func(x spec.Expr)
	walk = func(x spec.Expr) {
		switch x := x.(type) {
		case *spec.Unary:
			walk(x.X)
		case *spec.Binary:
			walk(x.X)
			walk(x.Y)
		case *spec.Cond:
			walk(x.C)
			walk(x.A)
			walk(x.B)
		case *spec.Call:
			if id, ok := x.Fun.(*spec.Ident); ok && id.Name == name {
				*out = append(*out, x.Args)
			}
			for _, a := range x.Args {
				walk(a)
			}
		case *spec.Index:
			walk(x.X)
			walk(x.I)
		case *spec.Selector:
			walk(x.X)
		case *spec.Quant:
			walk(x.Body)
		case *spec.Let:
			walk(x.Val)
			walk(x.Body)
		}
	}
	walk(x)
}

func (sf *specFn) isRecursive() bool {
	if !sf.recKnown {
		sf.recKnown = true
		sf.rec = sf.F.Body != nil && exprMentions(sf.F.Body, sf.F.Name)
	}
	return sf.rec
}

// structural: some parameter is, in every recursive application, replaced by a field path of itself.
func (sf *specFn) structural() bool {
	var calls [][]spec.Expr
	selfCalls(sf.F.Body, sf.F.Name, &calls)
	for i, p := range sf.F.Params {
		ok := true
		for _, args := range calls {
			if i >= len(args) {
				ok = false
				break
			}
			a := args[i]
			depth := 0
			for {
				if ix, isIx := a.(*spec.Index); isIx {
					// an element of a slice held by the parameter (recursion through []T fields)
					a = ix.X
					continue
				}
				s, isSel := a.(*spec.Selector)
				if !isSel {
					break
				}
				a = s.X
				depth++
			}
			id, isId := a.(*spec.Ident)
			if !isId || id.Name != p.Name || depth == 0 {
				ok = false
				break
			}
		}
		if ok {
			return true
		}
	}
	return false
}

// applyUF applies a recursive or uninterpreted specification function as a function symbol.
func (e *Eval) applyUF(sf *specFn, defEval *Eval, sc *scope) SV {
	var args []*smt.Term
	var sorts []*smt.Sort
	var names []string
	closed := true
	for _, p := range sf.F.Params {
		v := sc.vars[p.Name]
		pt := defEval.ResolveType(p.Type)
		if e.P.T.SortOf(pt) == SliceSort {
			e.fail("%s: recursive/uninterpreted specification functions cannot take slices", sf.F.Name)
		}
		t := e.term(v)
		if t.Sort != e.P.T.SortOf(pt) {
			e.fail("%s: argument %s has sort %s, want %s", sf.F.Name, p.Name, t.Sort.Name, e.P.T.SortOf(pt).Name)
		}
		args = append(args, t)
		sorts = append(sorts, t.Sort)
		names = append(names, sanitize(t.Sort.Name))
		if !t.Closed() {
			closed = false
		}
	}
	var rt types.Type = tBool
	if !sf.F.Pred {
		rt = defEval.ResolveType(sf.F.Result)
	}
	rs := e.P.T.SortOf(rt)
	name := "sf$" + sf.F.Name + "$" + strings.Join(names, "$")
	if sf.F.Uninterpreted {
		e.P.D.AddFunc(name, rs, sorts...)
		return e.FromVal(smt.App(name, rs, args...), rt)
	}
	if !sf.F.Opaque && !sf.structural() {
		e.fail("%s: cannot see that the recursion is structural (some parameter must be replaced by one of its own fields in every recursive application)", sf.F.Name)
	}
	// The heaps the definition reads (a recursion through slices reads backing arrays) become
	// further arguments of the function symbol: the value of f(args) in a state is a function of
	// the arguments and of those heaps, so facts about f survive exactly the writes that leave
	// them alone. They are found once per instantiation by evaluating the body over a scratch heap.
	if sf.discovering[name] {
		dn := name + "$disc"
		e.P.D.AddFunc(dn, rs, sorts...)
		return e.FromVal(smt.App(dn, rs, args...), rt)
	}
	keys, known := sf.heapKeys[name]
	if !known {
		if sf.discovering == nil {
			sf.discovering, sf.heapKeys = map[string]bool{}, map[string][]leaf{}
		}
		sf.discovering[name] = true
		scratch := map[string]*smt.Term{}
		dEval := *defEval
		dEval.Heap, dEval.Old, dEval.Facts, dEval.ufSeen = scratch, scratch, nil, nil
		dEval.unfold = maxUnfold
		dEval.Eval(sf.F.Body)
		delete(sf.discovering, name)
		var ks []string
		for k := range scratch {
			if k != "$gen" {
				ks = append(ks, k)
			}
		}
		sort.Strings(ks)
		for _, k := range ks {
			keys = append(keys, leaf{name: k, sort: scratch[k].Sort})
		}
		sf.heapKeys[name] = keys
	}
	for _, k := range keys {
		args = append(args, e.Env.heapVar(e.Heap, k.name, k.sort))
		sorts = append(sorts, k.sort)
	}
	e.P.D.AddFunc(name, rs, sorts...)
	app := smt.App(name, rs, args...)
	res := e.FromVal(app, rt)
	if !closed || e.Facts == nil || e.unfold >= maxUnfold {
		return res
	}
	if e.ufSeen == nil {
		e.ufSeen = map[*smt.Term]int{}
	}
	if d, seen := e.ufSeen[app]; seen && d <= e.unfold {
		return res
	}
	e.ufSeen[app] = e.unfold
	defEval.ufSeen = e.ufSeen
	defEval.unfold = e.unfold + 1
	body := defEval.Eval(sf.F.Body)
	body = defEval.coerce(body, rt)
	e.Facts(smt.Eq(app, e.term(body)))
	return res
}
