package vc

import (
	"fmt"
	"go/token"
	"go/types"

	"golang.org/x/tools/go/ssa"

	"govc/smt"
)

// Memory model M2: owned recursive structures.
//
// Pointers to a struct type declared `owned type T` are handles to sub-trees of a tree-shaped
// structure. The value below a handle is a term of the recursive datatype Own_T (see types.go). On
// one execution path a handle is in one of three states:
//
//   abstract      the sub-tree is known only as a term
//   materialised  the root node has been opened: its fields are individual values, the owned-pointer
//                 fields being handles again (so `l := n.left` and `n.left` denote the same handle)
//   moved         ownership was given away (argument of a consuming call, released node, sub-tree
//                 of a structure handed to a call that modifies it in place); any later use is an
//                 ownership violation and fails an obligation
//
// Reading a field opens the node (obligation: not nil), a store writes the field of the opened node,
// and whenever a tree *value* is needed (call argument, returned result, specification) the handle
// is folded back into a term. Folding visits every opened node once; reaching a node twice means the
// code built a DAG or a cycle, which the value reading cannot represent: that is reported as an
// ownership violation. What the model assumes is the discipline itself for the *inputs*: incoming
// owned pointers are roots of disjoint trees. Every function that manipulates the type is verified
// to re-establish it for its outputs.

type ownedRef struct {
	id   int
	init *smt.Term
	ptr  types.Type // the pointer type
	view bool       // read-only alias handed out by a `prop view` function
	epoch int
}

type ownedCell struct {
	abs    *smt.Term
	fields []Val
	moved  string
}

func (c *ownedCell) clone() *ownedCell {
	n := *c
	if c.fields != nil {
		n.fields = append([]Val{}, c.fields...)
	}
	return &n
}

func (x *exec) ownedInfoOf(t types.Type) *ownedInfo { return x.p.T.OwnedOf(t) }

func (x *exec) newOwned(t *smt.Term, ptr types.Type) *ownedRef {
	x.ownedN++
	return &ownedRef{id: x.ownedN, init: t, ptr: ptr}
}

func (x *exec) ocell(st *pstate, r *ownedRef) *ownedCell {
	if st.owned == nil {
		st.owned = map[int]*ownedCell{}
	}
	c, ok := st.owned[r.id]
	if !ok {
		c = &ownedCell{abs: r.init}
		st.owned[r.id] = c
	}
	return c
}

func (x *exec) ownedViolation(st *pstate, pos token.Pos, what string) {
	x.ownedViol++
	x.check(st, fmt.Sprintf("ownership[%d]", x.ownedViol), "ownership", smt.False, pos, "ownership discipline of owned structures: "+what)
}

func (x *exec) ownedUse(st *pstate, r *ownedRef, pos token.Pos) *ownedCell {
	c := x.ocell(st, r)
	if c.moved != "" {
		x.ownedViolation(st, pos, "use of a pointer whose ownership was given away ("+c.moved+")")
		// continue with an unconstrained value: the path is dead after the failed check
		c.moved = ""
		c.abs = x.env.Fresh("moved", x.p.T.SortOf(r.ptr))
	}
	if r.view && r.epoch != st.epoch {
		x.ownedViolation(st, pos, "use of a read-only view after the structure it points into was modified")
		r.epoch = st.epoch
	}
	return c
}

// ownedIsNil is the condition `r == nil`.
func (x *exec) ownedIsNil(st *pstate, r *ownedRef, pos token.Pos) *smt.Term {
	c := x.ownedUse(st, r, pos)
	if c.fields != nil {
		return smt.False
	}
	return x.ownedInfoOf(r.ptr).IsNil(c.abs)
}

// materialise opens the root node of r (obligation: r is not nil).
func (x *exec) materialise(st *pstate, r *ownedRef, in ssa.Instruction) *ownedCell {
	c := x.ownedUse(st, r, in.Pos())
	if c.fields != nil {
		return c
	}
	oi := x.ownedInfoOf(r.ptr)
	isNil := oi.IsNil(c.abs)
	if !isNil.IsFalse() {
		x.check(st, "nil."+x.ord[in], "nil", smt.Not(isNil), in.Pos(), "nil pointer dereference")
	}
	c.fields = make([]Val, len(oi.Fields))
	for i, f := range oi.Fields {
		ft := oi.Field(i, c.abs)
		if oi.Self[i] {
			nr := x.newOwned(ft, f.Type())
			nr.view, nr.epoch = r.view, r.epoch
			c.fields[i] = nr
		} else {
			c.fields[i] = ft
		}
	}
	c.abs = nil
	return c
}

// peek folds the structure below r into a term without changing ownership.
func (x *exec) peek(st *pstate, r *ownedRef, seen map[int]bool, pos token.Pos) *smt.Term {
	c := x.ownedUse(st, r, pos)
	oi := x.ownedInfoOf(r.ptr)
	if seen[r.id] {
		// reached a second time: only nil may be shared
		if c.fields != nil {
			x.ownedViolation(st, pos, "a node is reachable twice (the structure is not a tree)")
			return x.env.Fresh("shared", x.p.T.SortOf(r.ptr))
		}
		if isNil := oi.IsNil(c.abs); !isNil.IsTrue() {
			x.ownedViol++
			x.check(st, fmt.Sprintf("ownership[%d]", x.ownedViol), "ownership", isNil, pos,
				"ownership discipline of owned structures: a sub-structure is reachable twice (the structure is not a tree)")
		}
		return c.abs
	}
	seen[r.id] = true
	if c.fields == nil {
		return c.abs
	}
	args := make([]*smt.Term, len(c.fields))
	for i, f := range c.fields {
		switch f := f.(type) {
		case *ownedRef:
			args[i] = x.peek(st, f, seen, pos)
		case *smt.Term:
			args[i] = f
		default:
			unsupp("field of an owned node holds %T", f)
		}
	}
	return smt.MkCtor(oi.Sort, oi.Node, args...)
}

// ownedTerm is the tree value of a handle (no ownership change).
func (x *exec) ownedTerm(st *pstate, r *ownedRef, pos token.Pos) *smt.Term {
	return x.peek(st, r, map[int]bool{}, pos)
}

// markMoved invalidates r (when self) and every handle below it.
func (x *exec) markMoved(st *pstate, r *ownedRef, self bool, why string) {
	c := x.ocell(st, r)
	if c.fields != nil {
		for _, f := range c.fields {
			if fr, ok := f.(*ownedRef); ok {
				x.markMoved(st, fr, true, why)
			}
		}
	}
	if self {
		c.moved = why
		c.fields = nil
		c.abs = nil
	}
}

// setAbstract replaces the state of r by an abstract value (after a call that modified it in place).
func (x *exec) setAbstract(st *pstate, r *ownedRef, t *smt.Term) {
	x.markMoved(st, r, false, "the structure above it was modified in place by a call")
	c := x.ocell(st, r)
	c.fields = nil
	c.moved = ""
	c.abs = t
	st.epoch++
}

// ownedLoad reads field fi of the node r.
func (x *exec) ownedLoad(st *pstate, r *ownedRef, fi int, in ssa.Instruction) Val {
	c := x.materialise(st, r, in)
	return c.fields[fi]
}

// ownedStore writes field fi of the node r.
func (x *exec) ownedStore(st *pstate, r *ownedRef, fi int, v Val, in ssa.Instruction) {
	if r.view {
		x.ownedViolation(st, in.Pos(), "store through a read-only view")
	}
	c := x.materialise(st, r, in)
	oi := x.ownedInfoOf(r.ptr)
	if oi.Self[fi] {
		vr, ok := v.(*ownedRef)
		if !ok {
			unsupp("store of %T into an owned pointer field", v)
		}
		x.ownedUse(st, vr, in.Pos())
		c.fields[fi] = vr
	} else {
		c.fields[fi] = x.toTermSt(st, v, in.Pos())
	}
	st.epoch++
}

// ownedFieldLoc is the address of a field of an owned node: only loads and stores through it are supported.
type ownedFieldLoc struct {
	r  *ownedRef
	fi int
	path []pathElem // further projection into a struct-typed field
	t  types.Type
}

func (x *exec) ownedFieldLoad(st *pstate, ol *ownedFieldLoc, in ssa.Instruction) Val {
	v := x.ownedLoad(st, ol.r, ol.fi, in)
	if len(ol.path) == 0 {
		return v
	}
	t := v.(*smt.Term)
	oi := x.ownedInfoOf(ol.r.ptr)
	ty := oi.Fields[ol.fi].Type()
	for _, pe := range ol.path {
		t = x.env.project(t, ty, pe)
		ty = pe.T
	}
	return x.wrap(t, ty)
}

// ownedFieldPeek is the current value at an address inside an owned node (the node was opened when
// the address was taken).
func (x *exec) ownedFieldPeek(st *pstate, ol *ownedFieldLoc) *smt.Term {
	c := x.ownedUse(st, ol.r, x.fn.Pos())
	if c.fields == nil {
		unsupp("address of a field of an owned node outlives the node's opened state")
	}
	oi := x.ownedInfoOf(ol.r.ptr)
	var t *smt.Term
	switch f := c.fields[ol.fi].(type) {
	case *smt.Term:
		t = f
	case *ownedRef:
		t = x.ownedTerm(st, f, x.fn.Pos())
	}
	ty := oi.Fields[ol.fi].Type()
	for _, pe := range ol.path {
		t = x.env.project(t, ty, pe)
		ty = pe.T
	}
	return t
}

func (x *exec) ownedFieldStore(st *pstate, ol *ownedFieldLoc, v Val, in ssa.Instruction) {
	if len(ol.path) == 0 {
		x.ownedStore(st, ol.r, ol.fi, v, in)
		return
	}
	oi := x.ownedInfoOf(ol.r.ptr)
	cur := x.ownedLoad(st, ol.r, ol.fi, in).(*smt.Term)
	nv := x.env.update(cur, oi.Fields[ol.fi].Type(), ol.path, x.toTermSt(st, v, in.Pos()))
	x.ownedStore(st, ol.r, ol.fi, nv, in)
}

// ownedEq: pointer comparison of two handles. Only comparisons that the value reading can decide
// are supported: a handle with itself, and anything with nil.
func (x *exec) ownedEq(st *pstate, a, b *ownedRef, in *ssa.BinOp) *smt.Term {
	if a.id == b.id {
		return smt.True
	}
	isNilConst := func(v ssa.Value) bool {
		c, ok := v.(*ssa.Const)
		return ok && c.Value == nil
	}
	switch {
	case isNilConst(in.Y):
		return x.ownedIsNil(st, a, in.Pos())
	case isNilConst(in.X):
		return x.ownedIsNil(st, b, in.Pos())
	}
	unsupp("comparison of two pointers into owned structures at %s", x.p.Fset.Position(in.Pos()))
	return nil
}

// ownedExit checks the ownership discipline at a return and binds now(p) for the parameters that
// are modified in place:
//   - the results (unless the function is a `prop view`) and the parameters still owned by the
//     caller must be disjoint trees;
//   - a borrowed parameter (neither assigns nor consumes nor releases) still has its entry value;
//   - an owned structure loaded from a heap cell is unchanged or was stored back.
func (x *exec) ownedExit(st *pstate, sc *scope, results []Val, in *ssa.Return) {
	seen := map[int]bool{}
	view := x.c.hasProp("view")
	if !view {
		for _, v := range results {
			if r, ok := v.(*ownedRef); ok {
				x.peek(st, r, seen, in.Pos())
			}
		}
	}
	for _, op := range x.ownedParams {
		switch op.mode {
		case "consumes", "releases":
			continue
		case "assigns":
			t := x.peek(st, op.ref, seen, in.Pos())
			sc.vars["now$"+op.name] = SV{T: op.ref.ptr, Term: t}
		case "fields":
			// only the listed fields of the root node may differ from the entry value
			c := x.ocell(st, op.ref)
			if c.moved != "" {
				x.ownedViolation(st, in.Pos(), "ownership of parameter "+op.name+" was given away ("+c.moved+"); declare `consumes "+op.name+"`")
				continue
			}
			t := x.peek(st, op.ref, seen, in.Pos())
			sc.vars["now$"+op.name] = SV{T: op.ref.ptr, Term: t}
			oi := x.ownedInfoOf(op.ref.ptr)
			listed := map[string]bool{}
			for _, f := range x.c.C.OwnedFields(op.name) {
				listed[f] = true
			}
			if t != op.ref.init {
				x.emit(st, "frame."+op.name+".nil", "ownership", smt.Eq(oi.IsNil(t), oi.IsNil(op.ref.init)), in.Pos(), "parameter "+op.name+" is nil exactly if it was")
				for i, f := range oi.Fields {
					if listed[f.Name()] {
						continue
					}
					a, b := oi.Field(i, t), oi.Field(i, op.ref.init)
					if a != b {
						x.emit(st, "frame."+op.name+"."+f.Name(), "ownership", smt.Implies(smt.Not(oi.IsNil(op.ref.init)), smt.Eq(a, b)), in.Pos(),
							"field "+f.Name()+" of parameter "+op.name+" is unchanged (the contract lists only other fields in assigns)")
					}
				}
			}
		default:
			c := x.ocell(st, op.ref)
			if c.moved != "" {
				x.ownedViolation(st, in.Pos(), "ownership of the borrowed parameter "+op.name+" was given away ("+c.moved+"); declare `consumes "+op.name+"`")
				continue
			}
			t := x.peek(st, op.ref, seen, in.Pos())
			if t != op.ref.init {
				x.emit(st, "borrowed."+op.name, "ownership", smt.Eq(t, op.ref.init), in.Pos(),
					"the structure below parameter "+op.name+" is unchanged (the contract has neither `assigns "+op.name+"` nor `consumes "+op.name+"`)")
			}
		}
	}
	for key, r := range st.heapOwned {
		c := x.ocell(st, r)
		if c.moved != "" {
			x.ownedViolation(st, in.Pos(), "heap cell "+key+" still refers to a structure whose ownership was given away ("+c.moved+")")
			continue
		}
		t := x.peek(st, r, seen, in.Pos())
		if t != r.init {
			x.emit(st, "heapowned", "ownership", smt.Eq(t, r.init), in.Pos(), "an owned structure read from the heap is unchanged or was stored back")
		}
	}
}

// assumeAxioms adds the `axiom` items of the package as hypotheses. Axioms speak about uninterpreted
// specification functions (the order a comparator implements ...); an axiom whose types cannot be
// resolved in the function under verification (it mentions a type parameter the function does not
// have) does not concern it and is skipped.
func (x *exec) assumeAxioms(st *pstate) {
	if x.c == nil || x.c.Pkg == nil {
		return
	}
	for _, ax := range x.p.Axioms[x.c.Pkg.Path()] {
		func() {
			defer func() {
				if r := recover(); r != nil {
					if _, ok := r.(specErr); ok {
						return
					}
					panic(r)
				}
			}()
			ev := x.evalAt(st, nil)
			ev.Pos = ax.C.Pos
			t := ev.Bool(ax.C.E)
			st.assume(t, "axiom "+ax.C.Text)
			x.p.Assumptions["axiom ("+ax.C.Pos.String()+"): "+ax.C.Text] = true
		}()
	}
}

// loopGuardOwned: loops may traverse owned structures but not modify them (a loop invariant would
// have to describe a structure with a hole; none of the code under contract needs that).
func (x *exec) loopGuardOwned(h *ssa.BasicBlock) {
	for b := range x.loopBody[h] {
		for _, in := range b.Instrs {
			switch in := in.(type) {
			case *ssa.Store:
				if fa, ok := in.Addr.(*ssa.FieldAddr); ok && x.p.T.OwnedOf(fa.X.Type()) != nil {
					unsupp("loop modifies an owned structure at %s", x.p.Fset.Position(in.Pos()))
				}
				if x.p.T.OwnedOf(in.Val.Type()) != nil {
					unsupp("loop stores an owned pointer at %s", x.p.Fset.Position(in.Pos()))
				}
			case *ssa.Call:
				callee := in.Call.StaticCallee()
				for i, a := range in.Call.Args {
					if x.p.T.OwnedOf(a.Type()) == nil {
						continue
					}
					var c *Contract
					if callee != nil {
						c = x.p.ContractOf(callee)
					}
					if c == nil {
						unsupp("loop passes an owned pointer to a call without contract at %s", x.p.Fset.Position(in.Pos()))
					}
					names := contractParamNames(c, callee)
					if i < len(names) && c.C.OwnedMode(names[i]) != "" {
						unsupp("loop passes an owned pointer to a call that modifies or consumes it at %s", x.p.Fset.Position(in.Pos()))
					}
				}
			}
		}
	}
}

func (c *Contract) hasProp(name string) bool {
	for _, p := range c.C.Props {
		if p == name {
			return true
		}
	}
	return false
}

// toTermSt is toTerm for values that may be owned handles.
func (x *exec) toTermSt(st *pstate, v Val, pos token.Pos) *smt.Term {
	if r, ok := v.(*ownedRef); ok {
		return x.ownedTerm(st, r, pos)
	}
	return x.toTerm(v)
}
