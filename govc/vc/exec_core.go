package vc

import (
	"fmt"
	"go/token"
	"go/types"
	"sort"
	"strings"

	"golang.org/x/tools/go/ssa"

	"govc/smt"
	"govc/spec"
)

// Query is one validity query: Hyps |= Goal.
type Query struct {
	Func    string
	Ob      string // obligation name, stable under harmless edits
	Kind    string
	PathNo  int
	Hyps    []*smt.Term
	HypLabs []string
	Goal    *smt.Term
	Pos     token.Position
	Trace   []string
	Desc    string
	Inputs  []NamedTerm // terms whose model values describe the failing input
	Cover   bool        // a cover query: expected SAT (reachability); never a violation by itself
}

type NamedTerm struct {
	Name string
	T    *smt.Term
	Type string
}

type FuncResult struct {
	Key         string
	Pkg         string
	Queries     []*Query
	Unsupported string
	Paths       int
	Loops       int
	Notes       []string
}

type valEnv struct {
	m      map[ssa.Value]Val
	parent *valEnv
}

func (v *valEnv) get(k ssa.Value) (Val, bool) {
	for c := v; c != nil; c = c.parent {
		if x, ok := c.m[k]; ok {
			return x, true
		}
	}
	return nil, false
}

type deferred struct {
	call *ssa.CallCommon
	args []Val
	instr ssa.Instruction
}

// pstate is the per-path state.
type pstate struct {
	*State
	vals    *valEnv
	active  map[*ssa.BasicBlock]*loopCtx // loops entered on this path
	defers  []deferred
	checked map[string]bool // nil checks already made on this path
	held    map[string]bool // monitor locks held (by receiver term string)
	ghost   map[string]*smt.Term
	owned   map[int]*ownedCell // states of owned-structure handles (memory model M2)
	epoch   int                // bumped whenever an owned structure is modified
	heapOwned map[string]*ownedRef
	ufSeen  map[*smt.Term]int // applications of recursive specification functions whose definition is already among the hypotheses
	frames  []*inlFrame       // inlined callees being executed (see inline.go)
	maps    map[int]*mapState // exactly modelled local maps (see maps.go)
}

type loopCtx struct {
	measure *smt.Term
}

func (p *pstate) fork() *pstate {
	n := &pstate{State: p.State.clone(), vals: &valEnv{m: map[ssa.Value]Val{}, parent: p.vals},
		active: map[*ssa.BasicBlock]*loopCtx{}, checked: map[string]bool{}, held: map[string]bool{}, ghost: map[string]*smt.Term{}}
	for k, v := range p.active {
		n.active[k] = v
	}
	for k, v := range p.checked {
		n.checked[k] = v
	}
	for k, v := range p.held {
		n.held[k] = v
	}
	for k, v := range p.ghost {
		n.ghost[k] = v
	}
	n.defers = append([]deferred{}, p.defers...)
	n.frames = append([]*inlFrame{}, p.frames...)
	if p.maps != nil {
		n.maps = make(map[int]*mapState, len(p.maps))
		for k, v := range p.maps {
			n.maps[k] = v // states are replaced, never mutated
		}
	}
	n.epoch = p.epoch
	if p.owned != nil {
		n.owned = make(map[int]*ownedCell, len(p.owned))
		for k, v := range p.owned {
			n.owned[k] = v.clone()
		}
	}
	if p.ufSeen != nil {
		n.ufSeen = make(map[*smt.Term]int, len(p.ufSeen))
		for k, v := range p.ufSeen {
			n.ufSeen[k] = v
		}
	}
	if p.heapOwned != nil {
		n.heapOwned = make(map[string]*ownedRef, len(p.heapOwned))
		for k, v := range p.heapOwned {
			n.heapOwned[k] = v
		}
	}
	// the forking path continues in a fresh child environment too, so that its later writes
	// (loop-header phis at a back edge) are not visible to the sibling
	p.vals = &valEnv{m: map[ssa.Value]Val{}, parent: p.vals}
	return n
}

type exec struct {
	p        *Prog
	env      *Env
	fn       *ssa.Function
	c        *Contract
	res      *FuncResult
	old      map[string]*smt.Term
	entry    *scope // parameter bindings (entry values)
	tparams  map[string]types.Type
	loopOrd  map[*ssa.BasicBlock]int
	loopBody map[*ssa.BasicBlock]map[*ssa.BasicBlock]bool
	ord      map[ssa.Instruction]string
	pathNo   int
	maxPaths int
	inputs   []NamedTerm
	next0    *smt.Term
	monitor  *monitorInfo
	isInit   bool
	behScope map[string]*scope
	ownedN, ownedViol int
	ownedParams []ownedParam
	inlined  map[*ssa.Function]bool
	exactMaps map[*ssa.MakeMap]bool
	mapN     int
	allocNamed map[string]bool // source-level variables that live in an allocated cell
	entryMeasure *smt.Term     // value of the function's `decreases` measure on entry (recursion)
}

type ownedParam struct {
	name string
	ref  *ownedRef
	mode string // "", "assigns", "consumes", "releases"
}

// VerifyFunc generates the proof obligations of one function under contract.
func (p *Prog) VerifyFunc(c *Contract) (res *FuncResult) {
	fn := c.Fn
	res = &FuncResult{Key: c.C.Key()}
	if fn.Pkg != nil {
		res.Pkg = fn.Pkg.Pkg.Path()
	} else if c.Pkg != nil {
		res.Pkg = c.Pkg.Path()
	}
	x := &exec{p: p, fn: fn, c: c, res: res, maxPaths: 6000}
	x.env = &Env{T: p.T, prefix: sanitize(c.C.Key())}
	defer func() {
		if r := recover(); r != nil {
			switch e := r.(type) {
			case unsupported:
				res.Unsupported = e.msg
			case specErr:
				res.Unsupported = "contract error: " + e.msg
			default:
				panic(r)
			}
		}
	}()
	x.run()
	return res
}

func pkgShort(path string) string {
	if i := strings.LastIndex(path, "/"); i >= 0 {
		return path[i+1:]
	}
	return path
}

func (x *exec) obName(suffix string) string {
	return pkgShort(x.res.Pkg) + "." + x.res.Key + "#" + suffix
}

func (x *exec) run() {
	fn := x.fn
	if len(fn.Blocks) == 0 {
		unsupp("function has no body")
	}
	x.tparams = map[string]types.Type{}
	if tps := fn.TypeParams(); tps != nil {
		for i := 0; i < tps.Len(); i++ {
			x.tparams[tps.At(i).Obj().Name()] = tps.At(i)
		}
	}
	x.findLoops()
	x.assignOrdinals()
	st := &pstate{State: &State{heap: map[string]*smt.Term{}, vars: map[string]Val{}}, vals: &valEnv{m: map[ssa.Value]Val{}},
		active: map[*ssa.BasicBlock]*loopCtx{}, checked: map[string]bool{}, held: map[string]bool{}, ghost: map[string]*smt.Term{}}
	x.next0 = x.env.Next(st.heap)
	st.assume(smt.IGe(x.next0, smt.IntLit(1)), "heap: next >= 1")
	// parameters
	x.entry = &scope{vars: map[string]SV{}}
	names := x.paramNames()
	for i, prm := range fn.Params {
		v := x.freshInput(st, names[i], prm.Type())
		st.vals.m[prm] = v
		st.vars[prm.Name()] = tval{v, prm.Type()}
		if r, ok := v.(*ownedRef); ok {
			x.ownedParams = append(x.ownedParams, ownedParam{name: names[i], ref: r, mode: x.c.C.OwnedMode(names[i])})
		}
		ev := x.evalAt(st, nil)
		x.entry.vars[names[i]] = ev.FromVal(v, prm.Type())
		if prm.Name() != names[i] {
			x.entry.vars[prm.Name()] = x.entry.vars[names[i]]
		}
	}
	for _, fv := range fn.FreeVars {
		v := x.freshInput(st, fv.Name(), fv.Type())
		if l, isLoc := v.(*Loc); isLoc {
			// a variable captured by reference: its address is never nil
			st.assume(smt.Neq(l.Ref, smt.IntLit(0)), "captured variable "+fv.Name()+" has an address")
		}
		st.vals.m[fv] = v
		st.vars[fv.Name()] = tval{v, fv.Type()}
		ev := x.evalAt(st, nil)
		x.entry.vars[fv.Name()] = ev.FromVal(v, fv.Type())
	}
	// ghost parameters of the contract
	for _, g := range x.c.C.Ghost {
		ev := x.evalAt(st, nil)
		t := ev.ResolveType(g.Type)
		v := x.freshInput(st, "ghost_"+g.Name, t)
		x.entry.vars[g.Name] = ev.FromVal(v, t)
	}
	// ghost (universally quantified) parameters of behaviours
	x.behScope = map[string]*scope{}
	for _, b := range x.c.C.Behaviors {
		sc := x.entry.push()
		for _, g := range b.Ghost {
			ev := x.evalAt(st, nil)
			t := ev.ResolveType(g.Type)
			v := x.freshInput(st, "ghost_"+b.Name+"_"+g.Name, t)
			sc.vars[g.Name] = ev.FromVal(v, t)
		}
		x.behScope[b.Name] = sc
	}
	x.setupMonitor(st)
	x.old = st.heapSnapshot()
	x.assumeAxioms(st)
	// preconditions
	for i, r := range x.c.C.Requires {
		ev := x.evalAt(st, x.entry)
		ev.Pos = r.Pos
		t := ev.Bool(r.E)
		st.assume(t, fmt.Sprintf("requires[%d] %s", i, r.Pos))
	}
	x.old = st.heapSnapshot()
	if d := x.c.C.Decreases; d != nil {
		ev := x.evalAt(st, x.entry)
		ev.Pos = d.Pos
		x.entryMeasure = ev.as64(ev.coerce(ev.Eval(d.E), tInt))
	}
	x.useLemmas(st)
	// vacuity guard: the precondition must be satisfiable
	x.res.Queries = append(x.res.Queries, &Query{Func: x.res.Key, Ob: x.obName("cover.requires"), Kind: "cover", Cover: true,
		Hyps: append([]*smt.Term{}, st.pc...), HypLabs: append([]string{}, st.pcLab...), Goal: smt.False,
		Pos: x.p.Fset.Position(fn.Pos()), Desc: "precondition is satisfiable"})
	// proof by cases requested by the contract: one run per truth assignment
	states := []*pstate{st}
	for _, cs := range x.c.C.Cases {
		var next []*pstate
		for _, s := range states {
			ev := x.evalAt(s, x.entry)
			ev.Pos = cs.Pos
			t := ev.Bool(cs.E)
			s2 := s.fork()
			s.assume(t, "case "+cs.Text)
			s2.assume(smt.Not(t), "case not "+cs.Text)
			next = append(next, s, s2)
		}
		states = next
	}
	for _, s := range states {
		x.block(s, fn.Blocks[0], nil)
	}
	x.res.Paths = x.pathNo
	x.res.Loops = len(x.loopOrd)
}

func (x *exec) paramNames() []string {
	fn := x.fn
	var names []string
	cn := []string{}
	if x.c.C.RecvType != nil {
		rn := x.c.C.RecvName
		if rn == "" && len(fn.Params) > 0 {
			rn = fn.Params[0].Name()
		}
		cn = append(cn, rn)
	}
	for _, p := range x.c.C.Params {
		cn = append(cn, p.Name)
	}
	for i, prm := range fn.Params {
		n := prm.Name()
		if i < len(cn) && cn[i] != "" && cn[i] != "_" {
			n = cn[i]
		}
		names = append(names, n)
	}
	if len(cn) != len(fn.Params) {
		panic(specErr{fmt.Sprintf("%s: contract of %s has %d parameters, function has %d", x.c.C.Pos, x.c.C.Key(), len(cn), len(fn.Params))})
	}
	return names
}

// freshInput creates a symbolic input of type t with its type invariant.
func (x *exec) freshInput(st *pstate, name string, t types.Type) Val {
	s := x.p.T.SortOf(t)
	c := flatConst("in$"+sanitize(name), s)
	st.assume(x.p.T.Inv(c, t, 0), "type invariant of "+name)
	x.inputs = append(x.inputs, NamedTerm{Name: name, T: c, Type: t.String()})
	x.assumeAllocated(st, c, t)
	x.assumeValueInv(st, c, t, "input "+name)
	return x.wrap(c, t)
}

// assumeAllocated: references held by an incoming value are older than anything allocated later.
func (x *exec) assumeAllocated(st *pstate, v *smt.Term, t types.Type) {
	next := x.env.Next(st.heap)
	if x.p.T.OwnedOf(t) != nil {
		return
	}
	switch t.Underlying().(type) {
	case *types.Pointer:
		st.assume(smt.ILt(v, next), "allocated")
		// pointers to embedded objects are derived (negative) references: what is older than every
		// later allocation is the object they are embedded in
		x.p.D.AddFunc("rbase", smt.Int, smt.Int)
		st.assume(smt.ILt(smt.App("rbase", smt.Int, v), next), "allocated (enclosing object)")
	case *types.Map, *types.Chan:
		st.assume(smt.ILt(v, next), "allocated")
	case *types.Slice:
		st.assume(smt.ILt(SlRef(v), next), "allocated")
	}
}

// wrap turns a term of pointer type into a Loc.
func (x *exec) wrap(t *smt.Term, ty types.Type) Val {
	if pt, ok := ty.Underlying().(*types.Pointer); ok {
		if x.p.T.OwnedOf(ty) != nil {
			return x.newOwned(t, ty)
		}
		return &Loc{Kind: LRoot, Ref: t, Root: pt.Elem()}
	}
	return t
}

func (x *exec) evalAt(st *pstate, sc *scope) *Eval {
	if sc == nil {
		sc = &scope{vars: map[string]SV{}}
	}
	var pkg *types.Package
	if x.c != nil {
		pkg = x.c.Pkg
	}
	if pkg == nil && x.fn.Pkg != nil {
		pkg = x.fn.Pkg.Pkg
	}
	return &Eval{P: x.p, Env: x.env, Pkg: pkg, Heap: st.heap, Old: x.old, Scope: sc, TParams: x.tparams, Facts: func(t *smt.Term) { st.assume(t, "type invariant of a value read by a specification") },
		Owned: func(r *ownedRef) *smt.Term { return x.ownedTerm(st, r, x.fn.Pos()) }, ufSeen: x.ufSeenOf(st),
		OwnedField: func(ol *ownedFieldLoc) *smt.Term { return x.ownedFieldPeek(st, ol) },
		LocalMap: func(m *localMap) (*smt.Term, *smt.Term) {
			ms := x.mapStateOf(st, m)
			return ms.present, ms.vals
		}}
}

func (x *exec) ufSeenOf(st *pstate) map[*smt.Term]int {
	if st.ufSeen == nil {
		st.ufSeen = map[*smt.Term]int{}
	}
	return st.ufSeen
}

// ---- loops

func (x *exec) findLoops() {
	x.loopOrd = map[*ssa.BasicBlock]int{}
	x.loopBody = map[*ssa.BasicBlock]map[*ssa.BasicBlock]bool{}
	x.findLoopsOf(x.fn, 0)
}

// findLoopsOf registers the loops of fn; their ordinals start at base (inlined callees get bases
// 1000, 2000, ... so that the loop clauses of the contract under verification never apply to them).
func (x *exec) findLoopsOf(fn *ssa.Function, base int) {
	var headers []*ssa.BasicBlock
	for _, b := range fn.Blocks {
		for _, s := range b.Succs {
			if s.Dominates(b) {
				if _, ok := x.loopBody[s]; !ok {
					x.loopBody[s] = map[*ssa.BasicBlock]bool{s: true}
					headers = append(headers, s)
				}
				// natural loop of back edge b -> s
				body := x.loopBody[s]
				var stack []*ssa.BasicBlock
				if !body[b] {
					body[b] = true
					stack = append(stack, b)
				}
				for len(stack) > 0 {
					n := stack[len(stack)-1]
					stack = stack[:len(stack)-1]
					for _, pr := range n.Preds {
						if !body[pr] {
							body[pr] = true
							stack = append(stack, pr)
						}
					}
				}
			}
		}
	}
	// ordinal = source order of the loop statement: position of the first instruction of the header
	// that has one, falling back to block index (ssa creates blocks in source order).
	sort.Slice(headers, func(i, j int) bool { return x.loopPos(headers[i]) < x.loopPos(headers[j]) })
	for i, h := range headers {
		x.loopOrd[h] = base + i
	}
}

func (x *exec) loopPos(h *ssa.BasicBlock) int {
	best := token.Pos(0)
	for b := range x.loopBody[h] {
		for _, in := range b.Instrs {
			if p := in.Pos(); p.IsValid() && (best == 0 || p < best) {
				best = p
			}
		}
	}
	if best == 0 {
		return 1<<30 + h.Index
	}
	return int(best)
}

// writeSet is the set of heaps a piece of code may modify (name -> sort); all = anything.
type writeSet struct {
	heaps map[string]*smt.Sort
	// root heaps written only in cells the loop allocates itself (the per-iteration copies of range
	// variables, temporaries): cells that exist before the loop keep their content (havocWrites)
	fresh map[string]*smt.Sort
	all   bool
}

func (w *writeSet) freshRoot(x *exec, t types.Type) {
	if _, ok := t.Underlying().(*types.Array); ok {
		w.root(x, t)
		return
	}
	for _, lf := range x.env.rootLeaves(t) {
		w.fresh[lf.name] = lf.sort
	}
}

// allocRoot: the local cell a store address is rooted in (through field and array-element addresses).
func allocRoot(addr ssa.Value) *ssa.Alloc {
	for {
		switch a := addr.(type) {
		case *ssa.Alloc:
			return a
		case *ssa.FieldAddr:
			addr = a.X
		case *ssa.IndexAddr:
			if _, isPtr := a.X.Type().Underlying().(*types.Pointer); !isPtr {
				return nil
			}
			addr = a.X
		default:
			return nil
		}
	}
}

func (w *writeSet) root(x *exec, t types.Type) {
	if at, ok := t.Underlying().(*types.Array); ok {
		w.arr(x, at.Elem())
	}
	for _, lf := range x.env.rootLeaves(t) {
		w.heaps[lf.name] = lf.sort
	}
}

func (w *writeSet) arr(x *exec, elem types.Type) {
	n, s := x.env.arrHeapName(elem)
	w.heaps[n] = s
}

// loopWrites computes which heaps the loop may modify.
func (x *exec) loopWrites(h *ssa.BasicBlock) *writeSet {
	w := &writeSet{heaps: map[string]*smt.Sort{}, fresh: map[string]*smt.Sort{}}
	for b := range x.loopBody[h] {
		for _, in := range b.Instrs {
			switch in := in.(type) {
			case *ssa.Store:
				if a := allocRoot(in.Addr); a != nil && x.loopBody[h][a.Block()] {
					w.freshRoot(x, a.Type().(*types.Pointer).Elem())
					continue
				}
				x.addWriteHeap(w, in.Addr)
			case *ssa.MapUpdate:
				if mk, isMake := in.Map.(*ssa.MakeMap); isMake && x.exactMap(mk) {
					continue // an exactly modelled local map: forgotten separately (enterLoop)
				}
				w.all = true
			case *ssa.Alloc:
				w.heaps["next"] = smt.Int
				w.freshRoot(x, in.Type().(*types.Pointer).Elem())
			case *ssa.MakeSlice:
				w.heaps["next"] = smt.Int
				w.heaps["allocated"] = BV64
				w.arr(x, in.Type().Underlying().(*types.Slice).Elem())
			case *ssa.MakeMap, *ssa.MakeClosure, *ssa.MakeChan:
				w.heaps["next"] = smt.Int
			case *ssa.Convert:
				if st, ok := in.Type().Underlying().(*types.Slice); ok {
					w.heaps["next"] = smt.Int
					w.heaps["allocated"] = BV64
					w.arr(x, st.Elem())
				}
				if isString(in.Type()) && !isString(in.X.Type()) {
					w.heaps["allocated"] = BV64
				}
			case *ssa.Call:
				x.callWrites(w, &in.Call, in)
			case *ssa.Defer, *ssa.Go, *ssa.Send, *ssa.Select:
				w.all = true
			}
		}
	}
	return w
}

// addWriteHeap: a store through addr writes the heap of its root; found by walking the address expression.
func (x *exec) addWriteHeap(w *writeSet, addr ssa.Value) {
	switch a := addr.(type) {
	case *ssa.FieldAddr:
		// a store to one field of a struct cell writes only the heaps of that field
		if pt, ok := a.X.Type().Underlying().(*types.Pointer); ok && isGoStruct(pt.Elem()) && x.p.T.OwnedOf(a.X.Type()) == nil {
			if _, direct := a.X.(*ssa.FieldAddr); !direct {
				if _, viaIndex := a.X.(*ssa.IndexAddr); !viaIndex {
					si := x.p.T.StructOf(pt.Elem())
					f := si.Fields[a.Field]
					w.arr(x, pt.Elem()) // the pointer may point at an element of a slice of such structs
					if isGoStruct(f.Type()) {
						w.root(x, f.Type())
					} else {
						var out []leaf
						x.env.leafNames("H$"+si.Sort.Name+"."+sanitize(f.Name()), x.p.T.SortOf(f.Type()), &out)
						for _, lf := range out {
							w.heaps[lf.name] = lf.sort
						}
					}
					return
				}
			}
		}
		x.addWriteHeap(w, a.X)
		return
	case *ssa.IndexAddr:
		switch t := a.X.Type().Underlying().(type) {
		case *types.Slice:
			w.arr(x, t.Elem())
			return
		case *types.Pointer:
			x.addWriteHeap(w, a.X)
			return
		}
	}
	// a pointer value: the root cell of its element type, or (pointers handed out by IndexRef-like
	// functions) an element of a backing array of that type
	pt := addr.Type().Underlying().(*types.Pointer)
	w.root(x, pt.Elem())
	if _, local := addr.(*ssa.Alloc); local {
		return // the cell of a local variable: never an element of a slice
	}
	w.arr(x, pt.Elem())
}

// callWrites adds the heaps a call may modify according to the callee's contract.
func (x *exec) callWrites(w *writeSet, cc *ssa.CallCommon, at ssa.Instruction) {
	if b, ok := cc.Value.(*ssa.Builtin); ok {
		switch b.Name() {
		case "append":
			w.arr(x, cc.Args[0].Type().Underlying().(*types.Slice).Elem())
			w.heaps["next"] = smt.Int
		case "copy":
			w.arr(x, cc.Args[0].Type().Underlying().(*types.Slice).Elem())
		case "clear":
			if st, ok := cc.Args[0].Type().Underlying().(*types.Slice); ok {
				w.arr(x, st.Elem())
			} else {
				w.all = true
			}
		case "delete":
			if mk, isMake := cc.Args[0].(*ssa.MakeMap); isMake && x.exactMap(mk) {
				return
			}
			w.all = true
		}
		return
	}
	callee := cc.StaticCallee()
	if callee == nil && x.selfThroughCapture(cc.Value) {
		callee = x.fn
	}
	if callee == nil {
		if mc := closureThroughCell(cc.Value, at); mc != nil {
			callee = mc.Fn.(*ssa.Function)
		}
	}
	if callee == nil {
		w.all = true
		return
	}
	switch FuncKey(callee) {
	case "fmt.Errorf", "errors.New":
		// modelled inside govc (see special): a new error value, nothing else changes
		w.heaps["next"] = smt.Int
		return
	case "math.Float32bits", "math.Float32frombits", "math.Float64bits", "math.Float64frombits":
		return
	}
	c := x.p.ContractOf(callee)
	if c == nil {
		w.all = true
		return
	}
	if c.C.Pure {
		return
	}
	w.heaps["next"] = smt.Int
	if mayAllocate(c) {
		w.heaps["allocated"] = BV64
	}
	for _, a := range c.C.Assigns {
		x.assignHeaps(w, c, callee, a)
	}
}

// assignHeaps over-approximates the heaps named by an assigns entry by typing it.
func (x *exec) assignHeaps(w *writeSet, c *Contract, callee *ssa.Function, a spec.Expr) {
	switch a := a.(type) {
	case *spec.Ident:
		if t := x.typeOfSpec(c, callee, a); t != nil && x.p.T.OwnedOf(t) != nil {
			return // an owned structure modified in place: no heap is involved
		}
	case *spec.Unary:
		if a.Op == "*" {
			if t := x.typeOfSpec(c, callee, a.X); t != nil {
				if pt, ok := t.Underlying().(*types.Pointer); ok {
					w.root(x, pt.Elem())
					w.arr(x, pt.Elem())
					return
				}
			}
		}
	case *spec.Selector:
		var root spec.Expr = a
		for {
			s, ok := root.(*spec.Selector)
			if !ok {
				break
			}
			root = s.X
		}
		if t := x.typeOfSpec(c, callee, root); t != nil {
			if x.p.T.OwnedOf(t) != nil {
				return // a field of an owned node: no heap is involved
			}
			if pt, ok := t.Underlying().(*types.Pointer); ok {
				// `assigns p.f` with p a pointer to a struct and f a plain field: only the heaps of f
				// (and, because p may point at an element of a slice of such structs, their arrays)
				if s1, direct := a.X.(*spec.Ident); direct && isGoStruct(pt.Elem()) {
					_ = s1
					si := x.p.T.StructOf(pt.Elem())
					for i, f := range si.Fields {
						if f.Name() != a.Name || isGoStruct(f.Type()) {
							continue
						}
						_ = i
						var out []leaf
						x.env.leafNames("H$"+si.Sort.Name+"."+sanitize(f.Name()), x.p.T.SortOf(f.Type()), &out)
						for _, lf := range out {
							w.heaps[lf.name] = lf.sort
						}
						w.arr(x, pt.Elem())
						return
					}
				}
				w.root(x, pt.Elem())
				w.arr(x, pt.Elem())
				return
			}
		}
	case *spec.Call:
		if id, ok := a.Fun.(*spec.Ident); ok && (id.Name == "spare" || id.Name == "content" || id.Name == "backing") && len(a.Args) == 1 {
			if t := x.typeOfSpec(c, callee, a.Args[0]); t != nil {
				if st, ok := t.Underlying().(*types.Slice); ok {
					w.arr(x, st.Elem())
					return
				}
			}
		}
	case *spec.Index:
		if t := x.typeOfSpec(c, callee, a.X); t != nil {
			if st, ok := t.Underlying().(*types.Slice); ok {
				w.arr(x, st.Elem())
				return
			}
		}
	case *spec.SliceE:
		if t := x.typeOfSpec(c, callee, a.X); t != nil {
			if st, ok := t.Underlying().(*types.Slice); ok {
				w.arr(x, st.Elem())
				return
			}
		}
	}
	w.all = true
}

// typeOfSpec types a simple access path (parameter, deref, field) of a callee contract.
func (x *exec) typeOfSpec(c *Contract, callee *ssa.Function, a spec.Expr) types.Type {
	switch a := a.(type) {
	case *spec.Ident:
		names := contractParamNames(c, callee)
		for i, n := range names {
			if n == a.Name && i < len(callee.Params) {
				return callee.Params[i].Type()
			}
		}
	case *spec.Unary:
		if a.Op == "*" {
			if t := x.typeOfSpec(c, callee, a.X); t != nil {
				if pt, ok := t.Underlying().(*types.Pointer); ok {
					return pt.Elem()
				}
			}
		}
	case *spec.Selector:
		if t := x.typeOfSpec(c, callee, a.X); t != nil {
			if pt, ok := t.Underlying().(*types.Pointer); ok {
				t = pt.Elem()
			}
			if st, ok := t.Underlying().(*types.Struct); ok {
				if _, ft := fieldIndex(st, a.Name); ft != nil {
					return ft
				}
			}
		}
	}
	return nil
}

func contractParamNames(c *Contract, callee *ssa.Function) []string {
	var cn []string
	if c.C.RecvType != nil {
		rn := c.C.RecvName
		if rn == "" && len(callee.Params) > 0 {
			rn = callee.Params[0].Name()
		}
		cn = append(cn, rn)
	}
	for _, p := range c.C.Params {
		cn = append(cn, p.Name)
	}
	for i := range cn {
		if (cn[i] == "" || cn[i] == "_") && i < len(callee.Params) {
			cn[i] = callee.Params[i].Name()
		}
	}
	return cn
}

// havocForLoop forgets everything the loop may change.
func (x *exec) havocForLoop(st *pstate, h *ssa.BasicBlock) {
	w := x.loopWrites(h)
	x.havocWrites(st, w, "loop")
}

func (x *exec) havocWrites(st *pstate, w *writeSet, why string) {
	if w.all {
		cur := x.env.Next(st.heap)
		_, allocChanges := w.heaps["allocated"]
		alloc := x.env.heapVar(st.heap, "allocated", BV64)
		defer func() {
			if !allocChanges {
				st.heap["allocated"] = alloc // the allocation counter changes only through counted allocations
			}
		}()
		x.env.havocAll(st.heap)
		nv := x.env.Fresh("next$"+why, smt.Int)
		st.heap["next"] = nv
		st.assume(smt.IGe(nv, cur), "allocation only grows")
		return
	}
	// Heaps written only in cells the loop allocates itself are not forgotten. At the head of an
	// arbitrary iteration they differ from the heap at loop entry only in cells allocated by earlier
	// iterations (allocation base >= next at entry). Everything known about the entry heap concerns
	// cells that existed then, and those keep their content; the entry heap says nothing about the
	// region above next, so continuing with it is the same as continuing with a heap that agrees
	// with it below next and is arbitrary above. Pointers into that region can reach the body only
	// through loop-carried values or written heaps, which are forgotten, and every cell the body
	// allocates is initialised when it is allocated.
	for name, srt := range w.fresh {
		if _, also := w.heaps[name]; also || srt.Kind != smt.KArray {
			w.heaps[name] = srt
		}
	}
	for name, srt := range w.heaps {
		cur := x.env.heapVar(st.heap, name, srt)
		nv := x.env.Fresh(name+"$"+why, srt)
		st.heap[name] = nv
		if name == "next" {
			st.assume(smt.IGe(nv, cur), "allocation only grows")
		}
		if name == "allocated" {
			st.assume(smt.BVUge(nv, cur), "allocation counter only grows")
		}
	}
}

// ---- obligations

func (x *exec) emit(st *pstate, ob, kind string, goal *smt.Term, pos token.Pos, desc string) {
	q := &Query{Func: x.res.Key, Ob: x.obName(ob), Kind: kind, PathNo: x.pathNo,
		Hyps: append([]*smt.Term{}, st.pc...), HypLabs: append([]string{}, st.pcLab...), Goal: goal,
		Pos: x.p.Fset.Position(pos), Trace: append([]string{}, st.trace...), Desc: desc, Inputs: x.inputs}
	x.res.Queries = append(x.res.Queries, q)
}

// check emits an obligation and then assumes it (execution continues only if it held).
func (x *exec) check(st *pstate, ob, kind string, goal *smt.Term, pos token.Pos, desc string) {
	x.emit(st, ob, kind, goal, pos, desc)
	st.assume(goal, "checked "+ob)
}

func (x *exec) assignOrdinals() {
	x.ord = map[ssa.Instruction]string{}
	x.assignOrdinalsOf(x.fn, "")
}

// assignOrdinalsOf names the instructions of fn that can carry obligations; prefix distinguishes
// the instructions of an inlined callee from those of the function under verification.
func (x *exec) assignOrdinalsOf(fn *ssa.Function, prefix string) {
	count := map[string]int{}
	name := func(in ssa.Instruction, kind string) {
		x.ord[in] = fmt.Sprintf("%s%s[%d]", prefix, kind, count[kind])
		count[kind]++
	}
	// order instructions by source position where available, else by block order
	type item struct {
		in  ssa.Instruction
		pos token.Pos
		seq int
	}
	var items []item
	seq := 0
	for _, b := range fn.Blocks {
		last := token.NoPos
		for _, in := range b.Instrs {
			p := in.Pos()
			if !p.IsValid() {
				p = last
			} else {
				last = p
			}
			items = append(items, item{in, p, seq})
			seq++
		}
	}
	sort.SliceStable(items, func(i, j int) bool {
		if items[i].pos != items[j].pos && items[i].pos.IsValid() && items[j].pos.IsValid() {
			return items[i].pos < items[j].pos
		}
		return items[i].seq < items[j].seq
	})
	for _, it := range items {
		switch in := it.in.(type) {
		case *ssa.IndexAddr, *ssa.Index:
			name(in, "index")
		case *ssa.Lookup:
			if isString(in.X.Type()) {
				name(in, "index")
			} else {
				name(in, "mapget")
			}
		case *ssa.Slice:
			name(in, "slice")
		case *ssa.BinOp:
			switch in.Op {
			case token.QUO, token.REM:
				if isInteger(in.X.Type()) {
					name(in, "div")
				}
			case token.SHL, token.SHR:
				if isSigned(in.Y.Type()) {
					name(in, "shift")
				}
			}
		case *ssa.Panic:
			name(in, "panic")
		case *ssa.Call:
			if f := in.Call.StaticCallee(); f != nil {
				switch FuncKey(f) {
				case "sync.(*Mutex).Lock":
					name(in, "lock")
					continue
				case "sync.(*Mutex).Unlock":
					name(in, "unlock")
					continue
				}
			}
			name(in, "call")
		case *ssa.Defer:
			name(in, "defer")
		case *ssa.MakeSlice:
			name(in, "make")
		case *ssa.TypeAssert:
			if !in.CommaOk {
				name(in, "typeassert")
			}
		case *ssa.Store:
			name(in, "store")
		case *ssa.UnOp:
			if in.Op == token.MUL {
				name(in, "load")
			}
		case *ssa.FieldAddr:
			name(in, "fieldaddr")
		case *ssa.MapUpdate:
			name(in, "mapset")
		case *ssa.Return:
			name(in, "return")
		case *ssa.Convert:
			name(in, "convert")
		case *ssa.Go:
			name(in, "go")
		case *ssa.Send:
			name(in, "send")
		case *ssa.Select:
			name(in, "select")
		}
	}
}
