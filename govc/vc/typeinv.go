package vc

import (
	"go/token"
	"go/types"

	"govc/smt"
)

// Value invariants of struct types: `invariant type (t token): e`.
//
// For a (non-pointer) named struct type T with such an invariant, e holds for every value of type T
// that is an element of a slice or the result/parameter of a function: it is an obligation wherever a
// T value is put into a slice (append, element assignment, make - for the zero value) or returned /
// passed, and an assumption wherever one is read from a slice element, received as a parameter or
// returned by a call. Local variables of type T are not covered (they are built field by field).
// This carries per-element facts through lists without a quantified list invariant.

func (p *Prog) valueInvOf(t types.Type) (*types.Named, bool) {
	n, ok := types.Unalias(t).(*types.Named)
	if !ok || n.Obj().Pkg() == nil {
		return nil, false
	}
	if _, isStruct := n.Underlying().(*types.Struct); !isStruct {
		return nil, false
	}
	ti, ok := p.TypeInvs[n.Obj().Pkg().Path()+"."+n.Obj().Name()]
	if !ok || ti.Type.Kind == "ptr" {
		return nil, false
	}
	return n, true
}

// valueInv evaluates the invariant of type t for the value v (nil if t has none).
func (x *exec) valueInv(st *pstate, v *smt.Term, t types.Type) *smt.Term {
	n, ok := x.p.valueInvOf(t)
	if !ok {
		return nil
	}
	ti := x.p.TypeInvs[n.Obj().Pkg().Path()+"."+n.Obj().Name()]
	sc := &scope{vars: map[string]SV{}}
	ev := x.evalAt(st, sc)
	ev.Pkg = n.Obj().Pkg()
	ev.Pos = ti.E.Pos
	sc.vars[ti.Recv] = ev.FromVal(v, t)
	return ev.Bool(ti.E.E)
}

func (x *exec) assumeValueInv(st *pstate, v *smt.Term, t types.Type, why string) {
	if inv := x.valueInv(st, v, t); inv != nil {
		st.assume(inv, "invariant of type "+t.String()+" ("+why+")")
	}
}

func (x *exec) checkValueInv(st *pstate, v *smt.Term, t types.Type, ob string, pos token.Pos, why string) {
	if inv := x.valueInv(st, v, t); inv != nil && !inv.IsTrue() {
		x.check(st, ob, "typeinv", inv, pos, "invariant of type "+t.String()+" holds for "+why)
	}
}
