package vc

import (
	"go/types"

	"golang.org/x/tools/go/ssa"

	"govc/smt"
)

// Exact model of local maps.
//
// A map made by the function under verification whose value is only ever used as the operand of
// lookups, updates, delete, len and range (it is not passed on, stored, captured or returned; checked
// on the SSA form) and whose keys are scalars is modelled exactly: a presence array K -> Bool and a
// value array K -> V, per path. Everything else about maps stays opaque (exec_misc.go).

type localMap struct {
	id   int
	t    *types.Map
	mk   *ssa.MakeMap
}

type mapState struct {
	present *smt.Term
	vals    *smt.Term
}

func scalarKey(t types.Type) bool {
	switch u := t.Underlying().(type) {
	case *types.Basic:
		return u.Info()&(types.IsInteger|types.IsBoolean) != 0
	case *types.Pointer:
		return true
	}
	return false
}

// exactMap: the MakeMap value never escapes.
func (x *exec) exactMap(mk *ssa.MakeMap) bool {
	if r, ok := x.exactMaps[mk]; ok {
		return r
	}
	if x.exactMaps == nil {
		x.exactMaps = map[*ssa.MakeMap]bool{}
	}
	mt := mk.Type().Underlying().(*types.Map)
	ok := scalarKey(mt.Key()) && x.p.T.OwnedOf(mt.Elem()) == nil
	if ok {
		for _, ref := range *mk.Referrers() {
			switch r := ref.(type) {
			case *ssa.MapUpdate:
				if r.Map != ssa.Value(mk) || r.Key == ssa.Value(mk) || r.Value == ssa.Value(mk) {
					ok = false
				}
			case *ssa.Lookup:
				if r.X != ssa.Value(mk) {
					ok = false
				}
			case *ssa.Range:
			case *ssa.DebugRef:
			case *ssa.Call:
				b, isB := r.Call.Value.(*ssa.Builtin)
				if !isB || (b.Name() != "len" && b.Name() != "delete") {
					ok = false
				}
			default:
				ok = false
			}
		}
	}
	x.exactMaps[mk] = ok
	return ok
}

func (x *exec) newLocalMap(st *pstate, mk *ssa.MakeMap) *localMap {
	mt := mk.Type().Underlying().(*types.Map)
	x.mapN++
	m := &localMap{id: x.mapN, t: mt, mk: mk}
	ks, vs := x.p.T.SortOf(mt.Key()), x.p.T.SortOf(mt.Elem())
	if st.maps == nil {
		st.maps = map[int]*mapState{}
	}
	st.maps[m.id] = &mapState{
		present: smt.ConstArray(smt.Array(ks, smt.Bool), smt.False),
		vals:    smt.ConstArray(smt.Array(ks, vs), x.p.T.Zero(mt.Elem())),
	}
	return m
}

func (x *exec) mapStateOf(st *pstate, m *localMap) *mapState {
	ms, ok := st.maps[m.id]
	if !ok {
		unsupp("local map used outside the path that made it")
	}
	return ms
}

// havocLocalMap forgets the content of a local map (loop head).
func (x *exec) havocLocalMap(st *pstate, m *localMap) {
	ks, vs := x.p.T.SortOf(m.t.Key()), x.p.T.SortOf(m.t.Elem())
	st.maps[m.id] = &mapState{
		present: x.env.Fresh("map$present", smt.Array(ks, smt.Bool)),
		vals:    x.env.Fresh("map$vals", smt.Array(ks, vs)),
	}
}

// localMapsWrittenIn lists the exact local maps updated inside loop h.
func (x *exec) localMapsWrittenIn(st *pstate, h *ssa.BasicBlock) []*localMap {
	var out []*localMap
	seen := map[int]bool{}
	for b := range x.loopBody[h] {
		for _, in := range b.Instrs {
			var mv ssa.Value
			switch in := in.(type) {
			case *ssa.MapUpdate:
				mv = in.Map
			case *ssa.Call:
				if bi, ok := in.Call.Value.(*ssa.Builtin); ok && bi.Name() == "delete" {
					mv = in.Call.Args[0]
				}
			}
			if mv == nil {
				continue
			}
			if v, ok := st.vals.get(mv); ok {
				if m, isLocal := v.(*localMap); isLocal && !seen[m.id] {
					seen[m.id] = true
					out = append(out, m)
				}
			}
		}
	}
	return out
}
