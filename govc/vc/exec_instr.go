package vc

import (
	"fmt"
	"go/constant"
	"go/token"
	"go/types"
	"math"
	"math/big"
	"strings"

	"golang.org/x/tools/go/ssa"

	"govc/smt"
)

// block executes basic block b coming from pred.
func (x *exec) block(st *pstate, b *ssa.BasicBlock, pred *ssa.BasicBlock) {
	x.blockFrom(st, b, pred, 0)
}

// blockFrom executes b starting at instruction index start (start > 0: resuming the caller after an
// inlined call; block entry work - loop header, phis - was done when the block was entered).
func (x *exec) blockFrom(st *pstate, b *ssa.BasicBlock, pred *ssa.BasicBlock, start int) {
	if x.pathNo > x.maxPaths {
		unsupp("more than %d paths", x.maxPaths)
	}
	if start == 0 {
		// loop header?
		if ord, isLoop := x.loopOrd[b]; isLoop {
			if lc, active := st.active[b]; active {
				x.closeLoop(st, b, pred, ord, lc)
				return
			}
			x.enterLoop(st, b, pred, ord)
		} else {
			x.phis(st, b, pred)
		}
	}
	for i, in := range b.Instrs {
		if i < start {
			continue
		}
		if _, ok := in.(*ssa.Phi); ok {
			continue
		}
		switch in := in.(type) {
		case *ssa.If:
			c := x.term(st, in.Cond)
			tb, fb := b.Succs[0], b.Succs[1]
			if c.IsTrue() {
				x.block(st, tb, b)
				return
			}
			if c.IsFalse() {
				x.block(st, fb, b)
				return
			}
			// a condition the path has already decided (`a && b || !a && c` tests a twice): only the
			// consistent branch is a path
			nc := smt.Not(c)
			known := 0
			for _, f := range st.pc {
				if f == c {
					known = 1
					break
				}
				if f == nc {
					known = -1
					break
				}
			}
			if known > 0 {
				x.block(st, tb, b)
				return
			}
			if known < 0 {
				x.block(st, fb, b)
				return
			}
			st2 := st.fork()
			st.assume(c, fmt.Sprintf("branch taken at %s", x.p.Fset.Position(in.Cond.Pos())))
			st.trace = append(st.trace, fmt.Sprintf("b%d:T", b.Index))
			x.block(st, tb, b)
			st2.assume(smt.Not(c), fmt.Sprintf("branch not taken at %s", x.p.Fset.Position(in.Cond.Pos())))
			st2.trace = append(st2.trace, fmt.Sprintf("b%d:F", b.Index))
			x.block(st2, fb, b)
			return
		case *ssa.Jump:
			x.block(st, b.Succs[0], b)
			return
		case *ssa.Return:
			if len(st.frames) > 0 {
				x.inlineReturn(st, in)
				return
			}
			x.doReturn(st, in)
			x.pathNo++
			return
		case *ssa.Panic:
			x.doPanic(st, in)
			x.pathNo++
			return
		default:
			if done := x.instr(st, in); done {
				x.pathNo++
				return
			}
		}
		_ = i
	}
}

func (x *exec) phis(st *pstate, b *ssa.BasicBlock, pred *ssa.BasicBlock) {
	if pred == nil {
		return
	}
	idx := -1
	for i, p := range b.Preds {
		if p == pred {
			idx = i
		}
	}
	// phis are evaluated simultaneously
	var vals []Val
	var phis []*ssa.Phi
	for _, in := range b.Instrs {
		phi, ok := in.(*ssa.Phi)
		if !ok {
			break
		}
		phis = append(phis, phi)
		vals = append(vals, x.val(st, phi.Edges[idx]))
	}
	for i, phi := range phis {
		st.vals.m[phi] = vals[i]
		if phi.Comment != "" {
			st.vars[phi.Comment] = tval{vals[i], phi.Type()}
		}
	}
}

// ---- values

func (x *exec) val(st *pstate, v ssa.Value) Val {
	switch v := v.(type) {
	case *ssa.Const:
		return x.constant(v)
	case *ssa.Global:
		return x.globalLoc(st, v)
	case *ssa.Function:
		return &FuncVal{Fn: v}
	case *ssa.Builtin:
		return &FuncVal{Builtin: v.Name()}
	}
	if r, ok := st.vals.get(v); ok {
		return r
	}
	panic(fmt.Sprintf("govc: no value for %s (%T) in %s", v.Name(), v, x.fn))
}

// FuncVal is a statically known function value.
type FuncVal struct {
	Fn       *ssa.Function
	Builtin  string
	Bindings []Val
	// the value as data (closures stored in variables): an opaque non-nil token
	Term *smt.Term
}

func (x *exec) term(st *pstate, v ssa.Value) *smt.Term {
	return x.toTerm(x.val(st, v))
}

func (x *exec) toTerm(v Val) *smt.Term {
	switch r := v.(type) {
	case *smt.Term:
		return r
	case *Loc:
		return locTerm(r)
	case *FuncVal:
		if r.Term != nil {
			return r.Term
		}
		unsupp("function value used as data")
	case *ownedRef:
		unsupp("pointer into an owned structure used as a plain value")
	case *ownedFieldLoc:
		unsupp("address of a field of an owned node escapes")
	case *localMap:
		unsupp("a local map is used as a plain value")
	}
	panic(fmt.Sprintf("govc: value %T has no term", v))
}

func (x *exec) constant(c *ssa.Const) Val {
	t := c.Type()
	if c.Value == nil {
		// zero value / nil
		z := x.p.T.Zero(t)
		return x.wrap(z, t)
	}
	if _, ok := t.(*types.TypeParam); ok {
		unsupp("constant of type parameter type")
	}
	switch u := t.Underlying().(type) {
	case *types.Basic:
		switch {
		case u.Info()&types.IsBoolean != 0:
			return smt.BoolLit(constant.BoolVal(c.Value))
		case u.Info()&types.IsInteger != 0:
			n, ok := new(big.Int).SetString(constant.ToInt(c.Value).ExactString(), 10)
			if !ok {
				unsupp("integer constant %s", c.Value)
			}
			return smt.BVLit(n, intWidth(t))
		case u.Info()&types.IsString != 0:
			return strConst(constant.StringVal(c.Value))
		case u.Kind() == types.Float32:
			f, _ := constant.Float32Val(c.Value)
			return smt.BVLit64(uint64(math.Float32bits(f)), 32)
		case u.Kind() == types.Float64:
			f, _ := constant.Float64Val(c.Value)
			return smt.BVLit64(math.Float64bits(f), 64)
		}
	}
	unsupp("constant %s of type %s", c.Value, t)
	return nil
}

// globalLoc: package-level variables. Variables that are assigned only by their initialiser are
// read as constants (see Prog.globalValue); the location is a root cell with a fixed reference.
func (x *exec) globalLoc(st *pstate, g *ssa.Global) Val {
	pt := g.Type().(*types.Pointer)
	return &Loc{Kind: LRoot, Ref: smt.IntLit(-1), Root: pt.Elem(), Path: nil, N: 0, Idx: nil, global: g}
}

// ---- instructions

func (x *exec) set(st *pstate, v ssa.Value, val Val) {
	st.vals.m[v] = val
}

// instr executes one non-terminator instruction; returns true if the path ends.
func (x *exec) instr(st *pstate, in ssa.Instruction) bool {
	switch in := in.(type) {
	case *ssa.DebugRef:
		if id, ok := in.Expr.(interface{ String() string }); ok && in.Object() != nil {
			_ = id
			name := in.Object().Name()
			if in.IsAddr {
				// address-taken variable: remember its location; reads go through the heap
				st.vars["&"+name] = tval{x.val(st, in.X), in.X.Type()}
				delete(st.vars, name)
			} else {
				switch in.X.(type) {
				case *ssa.Function, *ssa.Builtin:
				default:
					if _, isVar := in.Object().(*types.Var); isVar {
						if _, addrTaken := st.vars["&"+name]; addrTaken && x.allocNamed[name] {
							// the variable lives in a cell (its address is taken somewhere): the value
							// mentioned here is what is being stored into it, not a new binding
							break
						}
						st.vars[name] = tval{x.val(st, in.X), in.X.Type()}
						delete(st.vars, "&"+name)
					}
				}
			}
		}
	case *ssa.Alloc:
		x.alloc(st, in)
	case *ssa.BinOp:
		x.set(st, in, x.binop(st, in))
	case *ssa.UnOp:
		x.set(st, in, x.unop(st, in))
	case *ssa.Convert:
		x.set(st, in, x.convert(st, in))
	case *ssa.ChangeType:
		x.set(st, in, x.val(st, in.X))
	case *ssa.ChangeInterface:
		x.set(st, in, x.val(st, in.X))
	case *ssa.MakeInterface:
		x.set(st, in, x.makeInterface(st, in))
	case *ssa.Extract:
		tup := x.val(st, in.Tuple).(Tuple)
		x.set(st, in, tup[in.Index])
	case *ssa.FieldAddr:
		st0 := in.X.Type().Underlying().(*types.Pointer).Elem().Underlying().(*types.Struct)
		switch b := x.val(st, in.X).(type) {
		case *ownedRef:
			x.materialise(st, b, in)
			x.set(st, in, &ownedFieldLoc{r: b, fi: in.Field, t: st0.Field(in.Field).Type()})
			return false
		case *ownedFieldLoc:
			n := *b
			n.path = append(append([]pathElem{}, b.path...), pathElem{Field: in.Field, T: st0.Field(in.Field).Type()})
			n.t = st0.Field(in.Field).Type()
			x.set(st, in, &n)
			return false
		}
		l := x.val(st, in.X).(*Loc)
		x.nilCheck(st, l, in)
		x.set(st, in, x.env.Field(l, in.Field, st0.Field(in.Field).Type()))
	case *ssa.Field:
		v := x.term(st, in.X)
		si := x.p.T.StructOf(in.X.Type())
		r := smt.Acc(si.Sort, si.Ctor, in.Field, v)
		x.set(st, in, x.wrap(r, in.Type()))
	case *ssa.IndexAddr:
		x.set(st, in, x.indexAddr(st, in))
	case *ssa.Index:
		x.set(st, in, x.indexVal(st, in))
	case *ssa.Lookup:
		x.set(st, in, x.lookup(st, in))
	case *ssa.Slice:
		x.set(st, in, x.sliceOp(st, in))
	case *ssa.Store:
		if ol, ok := x.val(st, in.Addr).(*ownedFieldLoc); ok {
			x.ownedFieldStore(st, ol, x.val(st, in.Val), in)
			return false
		}
		l := x.val(st, in.Addr).(*Loc)
		x.nilCheck(st, l, in)
		x.frameCheck(st, l, in)
		x.monitorAccess(st, l, in, true)
		v := x.val(st, in.Val)
		if r, ok := v.(*ownedRef); ok {
			// the heap cell becomes the owner of the structure
			t := x.ownedTerm(st, r, in.Pos())
			x.markMoved(st, r, true, "the structure was stored into the heap")
			x.store(st, l, t)
			delete(st.heapOwned, l.String())
			st.epoch++
			return false
		}
		x.store(st, l, x.toTerm(v))
		if l.Kind == LElem {
			if _, has := x.p.valueInvOf(l.Root); has {
				// a slice element of a type with a value invariant was (partly) overwritten
				whole := &Loc{Kind: LElem, Ref: l.Ref, Idx: l.Idx, Root: l.Root}
				x.checkValueInv(st, x.env.Load(st.heap, whole), l.Root, "typeinv."+x.ord[in], in.Pos(), "the stored slice element")
			}
		}
	case *ssa.MakeSlice:
		x.set(st, in, x.makeSlice(st, in))
	case *ssa.Call:
		return x.call(st, in)
	case *ssa.Defer:
		var args []Val
		for _, a := range in.Call.Args {
			args = append(args, x.val(st, a))
		}
		if in.Call.IsInvoke() {
			args = append([]Val{x.val(st, in.Call.Value)}, args...)
		}
		cc := in.Call
		st.defers = append(st.defers, deferred{call: &cc, args: args, instr: in})
	case *ssa.RunDefers:
		for i := len(st.defers) - 1; i >= 0; i-- {
			d := st.defers[i]
			x.callCommon(st, d.call, d.args, d.instr, nil)
		}
		st.defers = nil
	case *ssa.TypeAssert:
		x.set(st, in, x.typeAssert(st, in))
	case *ssa.MakeClosure:
		fv := &FuncVal{Fn: in.Fn.(*ssa.Function)}
		for _, b := range in.Bindings {
			fv.Bindings = append(fv.Bindings, x.val(st, b))
		}
		fv.Term = x.env.Fresh("closure", smt.Int)
		st.assume(smt.Neq(fv.Term, smt.IntLit(0)), "a closure is not nil")
		x.set(st, in, fv)
	case *ssa.MakeMap:
		x.set(st, in, x.makeMap(st, in))
	case *ssa.MapUpdate:
		x.mapUpdate(st, in)
	case *ssa.Range:
		x.set(st, in, x.rangeInit(st, in))
	case *ssa.Next:
		x.set(st, in, x.rangeNext(st, in))
	case *ssa.MakeChan:
		r := x.env.Alloc(st.State)
		x.set(st, in, r)
	case *ssa.Go, *ssa.Send, *ssa.Select:
		return x.concurrency(st, in)
	default:
		unsupp("instruction %T (%s) at %s", in, in, x.p.Fset.Position(in.Pos()))
	}
	return false
}

func (x *exec) alloc(st *pstate, in *ssa.Alloc) {
	et := in.Type().(*types.Pointer).Elem()
	ref := x.env.Alloc(st.State)
	if at, ok := et.Underlying().(*types.Array); ok {
		// array objects live among the backing arrays so that they can be sliced
		x.env.SetBacking(st.heap, at.Elem(), ref, x.p.T.ZeroArray(at.Elem()))
		x.set(st, in, &Loc{Kind: LArr, Ref: ref, Idx: bv64(0), Root: at.Elem(), N: at.Len(), fresh: true})
		return
	}
	l := &Loc{Kind: LRoot, Ref: ref, Root: et, fresh: true}
	if c := in.Comment; c != "" && c != "complit" && c != "varargs" && c != "new" && !strings.ContainsAny(c, " .()[]") && len(st.frames) == 0 {
		// the cell of the source-level variable c: specifications read the variable through it
		if x.allocNamed == nil {
			x.allocNamed = map[string]bool{}
		}
		x.allocNamed[c] = true
		st.vars["&"+c] = tval{l, in.Type()}
		delete(st.vars, c)
	}
	if isGoStruct(et) {
		x.p.D.AddFunc("rbase", smt.Int, smt.Int)
		st.assume(smt.Eq(smt.App("rbase", smt.Int, ref), ref), "a new object is its own allocation")
	}
	x.env.Store(st.heap, l, x.p.T.Zero(et))
	x.set(st, in, l)
}

func (x *exec) store(st *pstate, l *Loc, v *smt.Term) {
	if l.global != nil {
		if x.isInit {
			return
		}
		unsupp("store to package-level variable %s", l.global.Name())
	}
	x.env.Store(st.heap, l, v)
}

func (x *exec) load(st *pstate, l *Loc) *smt.Term {
	if l.global != nil {
		gv := x.p.globalValue(x.env, st.heap, l.global.Object().(*types.Var))
		v := gv.Term
		t := l.Root
		for _, pe := range l.Path {
			v = x.env.project(v, t, pe)
			t = pe.T
		}
		return v
	}
	return x.env.Load(st.heap, l)
}

// nilCheck: dereferencing l must not hit a nil root.
func (x *exec) nilCheck(st *pstate, l *Loc, in ssa.Instruction) {
	if l.fresh || l.global != nil || l.Kind != LRoot {
		return
	}
	if l.Ref.Op == "app" && strings.HasPrefix(l.Ref.Name, "fa$") {
		return // an embedded object: its parent was checked when the field address was taken
	}
	key := l.Ref.String()
	if st.checked[key] {
		return
	}
	st.checked[key] = true
	if l.Ref.IsLit() && l.Ref.Val.Sign() > 0 {
		return
	}
	x.check(st, "nil."+x.ord[in], "nil", smt.Neq(l.Ref, smt.IntLit(0)), in.Pos(), "nil pointer dereference")
}

func (x *exec) binop(st *pstate, in *ssa.BinOp) Val {
	tx := in.X.Type()
	switch {
	case isInteger(tx):
		a, b := x.term(st, in.X), x.term(st, in.Y)
		signed := isSigned(tx)
		switch in.Op {
		case token.EQL, token.NEQ, token.LSS, token.LEQ, token.GTR, token.GEQ:
			return intCmp(in.Op, a, b, signed)
		case token.QUO, token.REM:
			x.check(st, x.ord[in], "div", smt.Neq(b, smt.BVLit64(0, b.Sort.W)), in.Pos(), "integer division by zero")
		case token.SHL, token.SHR:
			if isSigned(in.Y.Type()) {
				x.check(st, x.ord[in], "shift", smt.BVSge(b, smt.BVLit64(0, b.Sort.W)), in.Pos(), "negative shift count")
			}
		}
		r := intBinOp(in.Op, a, b, signed)
		if r == nil {
			unsupp("integer operator %s", in.Op)
		}
		return r
	case isBool(tx):
		a, b := x.term(st, in.X), x.term(st, in.Y)
		switch in.Op {
		case token.EQL:
			return smt.Eq(a, b)
		case token.NEQ:
			return smt.Neq(a, b)
		case token.AND, token.LAND:
			return smt.And(a, b)
		case token.OR, token.LOR:
			return smt.Or(a, b)
		}
	case isString(tx):
		a, b := x.term(st, in.X), x.term(st, in.Y)
		switch in.Op {
		case token.EQL:
			return strEq(a, b)
		case token.NEQ:
			return smt.Not(strEq(a, b))
		case token.ADD:
			return x.strConcat(st, a, b)
		}
		unsupp("string operator %s", in.Op)
	case isFloat(tx):
		unsupp("floating point operator %s at %s", in.Op, x.p.Fset.Position(in.Pos()))
	}
	// pointers, interfaces, chans, maps: equality only
	switch in.Op {
	case token.EQL, token.NEQ:
		var eq *smt.Term
		va, vb := x.val(st, in.X), x.val(st, in.Y)
		la, aok := va.(*Loc)
		lb, bok := vb.(*Loc)
		if ra, isOwned := va.(*ownedRef); isOwned {
			rb, ok2 := vb.(*ownedRef)
			if !ok2 {
				unsupp("comparison of an owned pointer with %T", vb)
			}
			eq = x.ownedEq(st, ra, rb, in)
		} else if aok && bok {
			ev := x.evalAt(st, nil)
			eq = ev.ptrEq(SV{T: tx, Loc: la}, SV{T: tx, Loc: lb})
		} else {
			a, b := x.toTerm(va), x.toTerm(vb)
			if a.Sort != b.Sort {
				// comparison of interface with concrete value is compiled through MakeInterface, so sorts agree
				unsupp("comparison of %s and %s", in.X.Type(), in.Y.Type())
			}
			eq = smt.Eq(a, b)
		}
		if in.Op == token.NEQ {
			return smt.Not(eq)
		}
		return eq
	}
	unsupp("operator %s on %s", in.Op, tx)
	return nil
}

func (x *exec) strConcat(st *pstate, a, b *smt.Term) *smt.Term {
	// an opaque string with the right length and content
	r := x.env.FreshVal("concat", StrSort)
	la, lb := StrLen(a), StrLen(b)
	st.assume(smt.Eq(StrLen(r), smt.BVAdd(la, lb)), "concat length")
	st.assume(smt.BVUle(StrLen(r), maxLen), "concat length bound")
	st.assume(smt.Eq(StrOff(r), bv64(0)), "concat offset")
	qcount++
	k := smt.BVar("k!"+itoa(qcount), BV64)
	st.assume(smt.Forall([]*smt.Term{k}, smt.Implies(smt.BVUlt(k, smt.BVAdd(la, lb)),
		smt.Eq(smt.Select(StrArr(r), k), smt.Ite(smt.BVUlt(k, la),
			smt.Select(StrArr(a), smt.BVAdd(StrOff(a), k)),
			smt.Select(StrArr(b), smt.BVAdd(StrOff(b), smt.BVSub(k, la))))))), "concat content")
	return r
}

func (x *exec) unop(st *pstate, in *ssa.UnOp) Val {
	switch in.Op {
	case token.MUL:
		if ol, isOwned := x.val(st, in.X).(*ownedFieldLoc); isOwned {
			return x.ownedFieldLoad(st, ol, in)
		}
		l, ok := x.val(st, in.X).(*Loc)
		if !ok {
			unsupp("load through non-location %T", x.val(st, in.X))
		}
		x.nilCheck(st, l, in)
		x.monitorAccess(st, l, in, false)
		if l.Kind == LArr && len(l.Path) == 0 {
			// whole array value
			arr := x.env.Backing(st.heap, l.Root, l.Ref)
			if !(l.Idx.IsLit() && l.Idx.Val.Sign() == 0) {
				unsupp("load of array object at non-zero offset")
			}
			return arr
		}
		v := x.load(st, l)
		t := in.Type()
		if x.p.T.OwnedOf(t) != nil {
			// an owned structure kept in a heap cell: repeated loads of the cell give the same handle
			key := l.String()
			if r, ok := st.heapOwned[key]; ok {
				return r
			}
			r := x.newOwned(v, t)
			if st.heapOwned == nil {
				st.heapOwned = map[string]*ownedRef{}
			}
			st.heapOwned[key] = r
			return r
		}
		x.assumeLoaded(st, v, t)
		if l.Kind == LElem && len(l.Path) == 0 && !l.fresh {
			x.assumeValueInv(st, v, t, "slice element")
		}
		return x.wrap(v, t)
	case token.NOT:
		return smt.Not(x.term(st, in.X))
	case token.SUB:
		if isInteger(in.X.Type()) {
			return smt.BVNeg(x.term(st, in.X))
		}
		unsupp("negation of %s", in.X.Type())
	case token.XOR:
		return smt.BVNot(x.term(st, in.X))
	case token.ARROW:
		return x.recv(st, in)
	}
	unsupp("unary %s", in.Op)
	return nil
}

// assumeLoaded: values read from the heap satisfy their type invariant and are allocated.
func (x *exec) assumeLoaded(st *pstate, v *smt.Term, t types.Type) {
	switch t.Underlying().(type) {
	case *types.Slice, *types.Pointer, *types.Map, *types.Chan:
		st.assume(x.p.T.Inv(v, t, 0), "type invariant of loaded value")
		x.assumeAllocated(st, v, t)
	case *types.Basic:
		if isString(t) {
			st.assume(x.p.T.Inv(v, t, 0), "type invariant of loaded value")
		}
	}
}

func (x *exec) convert(st *pstate, in *ssa.Convert) Val {
	from, to := in.X.Type(), in.Type()
	switch {
	case isInteger(from) && isInteger(to):
		return convertInt(x.term(st, in.X), from, to)
	case isString(to) && isString(from):
		return x.val(st, in.X)
	case isString(to):
		if sl, ok := from.Underlying().(*types.Slice); ok && intWidth(sl.Elem()) == 8 {
			s := x.term(st, in.X)
			x.ghostAlloc(st, SlLen(s))
			return MkStr(x.env.Backing(st.heap, sl.Elem(), SlRef(s)), SlOff(s), SlLen(s))
		}
		unsupp("conversion %s -> string", from)
	case isFloat(from) && isFloat(to):
		a := x.term(st, in.X)
		if int64(a.Sort.W) == sizeOf(to)*8 {
			return a
		}
		if a.Sort.W == 32 {
			x.p.D.AddFunc("f32to64", BV64, BV32)
			x.p.needFloatAxioms = true
			return smt.App("f32to64", BV64, a)
		}
		unsupp("conversion float64 -> float32")
	}
	if sl, ok := to.Underlying().(*types.Slice); ok && isString(from) && intWidth(sl.Elem()) == 8 {
		s := x.term(st, in.X)
		ref := x.env.Alloc(st.State)
		x.env.SetBacking(st.heap, sl.Elem(), ref, StrArr(s))
		x.ghostAlloc(st, StrLen(s))
		return MkSlice(ref, StrOff(s), StrLen(s), StrLen(s))
	}
	if _, ok := to.Underlying().(*types.Pointer); ok {
		return x.val(st, in.X)
	}
	unsupp("conversion %s -> %s at %s", from, to, x.p.Fset.Position(in.Pos()))
	return nil
}

func (x *exec) ghostAlloc(st *pstate, n *smt.Term) {
	cur := x.env.heapVar(st.heap, "allocated", BV64)
	st.heap["allocated"] = smt.BVAdd(cur, n)
}

func sizeOf(t types.Type) (n int64) {
	defer func() {
		if recover() != nil {
			n = 8 // type parameters and other types without a static size
		}
	}()
	if _, ok := t.(*types.TypeParam); ok {
		return 8
	}
	return types.SizesFor("gc", "amd64").Sizeof(t)
}

func (x *exec) makeInterface(st *pstate, in *ssa.MakeInterface) Val {
	t := in.X.Type()
	v := x.val(st, in.X)
	tid := x.p.T.TypeID(t)
	if l, ok := v.(*Loc); ok {
		return MkIface(tid, locTerm(l))
	}
	vt := v.(*smt.Term)
	if vt.Sort == smt.Int {
		return MkIface(tid, vt)
	}
	// boxed value: injective box function per sort
	bn := "box$" + sanitize(vt.Sort.Name)
	un := "unbox$" + sanitize(vt.Sort.Name)
	x.p.D.AddFunc(bn, smt.Int, vt.Sort)
	if x.p.D.Func(un) == nil {
		x.p.D.AddFunc(un, vt.Sort, smt.Int)
		bv := smt.BVar("bx", vt.Sort)
		x.p.D.AddAxiom("box-injective "+vt.Sort.Name, smt.Forall([]*smt.Term{bv},
			smt.Eq(smt.App(un, vt.Sort, smt.App(bn, smt.Int, bv)), bv), smt.App(bn, smt.Int, bv)))
	}
	return MkIface(tid, smt.App(bn, smt.Int, vt))
}

func (x *exec) typeAssert(st *pstate, in *ssa.TypeAssert) Val {
	v := x.term(st, in.X)
	at := in.AssertedType
	if _, isIface := at.Underlying().(*types.Interface); isIface {
		// interface-to-interface: succeeds iff non-nil (and implements; the latter is unknown)
		ok := x.env.Fresh("implements", smt.Bool)
		st.assume(smt.Implies(ok, smt.Neq(v, NilIface)), "type assertion to interface succeeds only on non-nil")
		if in.CommaOk {
			return Tuple{smt.Ite(ok, v, NilIface), ok}
		}
		x.check(st, x.ord[in], "typeassert", ok, in.Pos(), "type assertion may fail")
		return v
	}
	tid := x.p.T.TypeID(at)
	ok := smt.Eq(IfTyp(v), tid)
	var payload Val
	s := x.p.T.SortOf(at)
	if s == smt.Int {
		payload = x.wrap(IfVal(v), at)
	} else {
		un := "unbox$" + sanitize(s.Name)
		bn := "box$" + sanitize(s.Name)
		x.p.D.AddFunc(bn, smt.Int, s)
		if x.p.D.Func(un) == nil {
			x.p.D.AddFunc(un, s, smt.Int)
			bv := smt.BVar("bx", s)
			x.p.D.AddAxiom("box-injective "+s.Name, smt.Forall([]*smt.Term{bv},
				smt.Eq(smt.App(un, s, smt.App(bn, smt.Int, bv)), bv), smt.App(bn, smt.Int, bv)))
		}
		payload = smt.App(un, s, IfVal(v))
	}
	if in.CommaOk {
		if l, isLoc := payload.(*Loc); isLoc {
			_ = l
			return Tuple{payload, ok}
		}
		return Tuple{smt.Ite(ok, payload.(*smt.Term), x.p.T.Zero(at)), ok}
	}
	x.check(st, x.ord[in], "typeassert", ok, in.Pos(), "type assertion may fail")
	return payload
}

// to64 converts an index value to a 64-bit vector and says whether it is signed.
func (x *exec) to64(st *pstate, v ssa.Value) (*smt.Term, bool) {
	t := x.term(st, v)
	signed := isSigned(v.Type())
	return smt.Resize(t, 64, signed), signed
}

func inRange(idx *smt.Term, signed bool, n *smt.Term) *smt.Term {
	// 0 <= idx < n with n <= 2^48: as unsigned comparison this also excludes negative idx
	return smt.BVUlt(idx, n)
}

func (x *exec) indexAddr(st *pstate, in *ssa.IndexAddr) Val {
	idx, signed := x.to64(st, in.Index)
	switch t := in.X.Type().Underlying().(type) {
	case *types.Slice:
		s := x.term(st, in.X)
		x.check(st, x.ord[in], "index", inRange(idx, signed, SlLen(s)), in.Pos(), "index out of range")
		return &Loc{Kind: LElem, Ref: SlRef(s), Idx: smt.BVAdd(SlOff(s), idx), Root: t.Elem()}
	case *types.Pointer:
		at := t.Elem().Underlying().(*types.Array)
		l := x.val(st, in.X).(*Loc)
		x.nilCheck(st, l, in)
		x.check(st, x.ord[in], "index", inRange(idx, signed, bv64(at.Len())), in.Pos(), "index out of range")
		if l.Kind == LArr && len(l.Path) == 0 {
			return &Loc{Kind: LElem, Ref: l.Ref, Idx: smt.BVAdd(l.Idx, idx), Root: at.Elem(), fresh: l.fresh}
		}
		return l.extend(pathElem{Field: -1, Idx: idx, T: at.Elem()})
	}
	unsupp("IndexAddr on %s", in.X.Type())
	return nil
}

func (x *exec) indexVal(st *pstate, in *ssa.Index) Val {
	idx, signed := x.to64(st, in.Index)
	switch t := in.X.Type().Underlying().(type) {
	case *types.Array:
		a := x.term(st, in.X)
		x.check(st, x.ord[in], "index", inRange(idx, signed, bv64(t.Len())), in.Pos(), "index out of range")
		return x.wrap(smt.Select(a, idx), t.Elem())
	case *types.Basic:
		if isString(t) {
			s := x.term(st, in.X)
			x.check(st, x.ord[in], "index", inRange(idx, signed, StrLen(s)), in.Pos(), "index out of range")
			return smt.Select(StrArr(s), smt.BVAdd(StrOff(s), idx))
		}
	}
	unsupp("Index on %s", in.X.Type())
	return nil
}

func (x *exec) lookup(st *pstate, in *ssa.Lookup) Val {
	if isString(in.X.Type()) {
		idx, signed := x.to64(st, in.Index)
		s := x.term(st, in.X)
		x.check(st, x.ord[in], "index", inRange(idx, signed, StrLen(s)), in.Pos(), "index out of range")
		return smt.Select(StrArr(s), smt.BVAdd(StrOff(s), idx))
	}
	return x.mapLookup(st, in)
}

func (x *exec) sliceOp(st *pstate, in *ssa.Slice) Val {
	var lo, hi, mx *smt.Term
	if in.Low != nil {
		lo, _ = x.to64(st, in.Low)
	} else {
		lo = bv64(0)
	}
	if in.High != nil {
		hi, _ = x.to64(st, in.High)
	}
	if in.Max != nil {
		mx, _ = x.to64(st, in.Max)
	}
	ob := x.ord[in]
	switch t := in.X.Type().Underlying().(type) {
	case *types.Slice:
		s := x.term(st, in.X)
		cp := SlCap(s)
		if hi == nil {
			hi = SlLen(s)
		}
		limit := cp
		if mx != nil {
			x.check(st, ob+".max", "slice", smt.BVUle(mx, cp), in.Pos(), "slice bounds out of range (max > cap)")
			limit = mx
		}
		x.check(st, ob+".high", "slice", smt.BVUle(hi, limit), in.Pos(), "slice bounds out of range (high)")
		x.check(st, ob+".low", "slice", smt.BVUle(lo, hi), in.Pos(), "slice bounds out of range (low > high)")
		return MkSlice(SlRef(s), smt.BVAdd(SlOff(s), lo), smt.BVSub(hi, lo), smt.BVSub(limit, lo))
	case *types.Basic:
		s := x.term(st, in.X)
		if hi == nil {
			hi = StrLen(s)
		}
		x.check(st, ob+".high", "slice", smt.BVUle(hi, StrLen(s)), in.Pos(), "slice bounds out of range (high)")
		x.check(st, ob+".low", "slice", smt.BVUle(lo, hi), in.Pos(), "slice bounds out of range (low > high)")
		return MkStr(StrArr(s), smt.BVAdd(StrOff(s), lo), smt.BVSub(hi, lo))
	case *types.Pointer:
		at := t.Elem().Underlying().(*types.Array)
		l := x.val(st, in.X).(*Loc)
		x.nilCheck(st, l, in)
		n := bv64(at.Len())
		if hi == nil {
			hi = n
		}
		limit := n
		if mx != nil {
			x.check(st, ob+".max", "slice", smt.BVUle(mx, n), in.Pos(), "slice bounds out of range (max > cap)")
			limit = mx
		}
		x.check(st, ob+".high", "slice", smt.BVUle(hi, limit), in.Pos(), "slice bounds out of range (high)")
		x.check(st, ob+".low", "slice", smt.BVUle(lo, hi), in.Pos(), "slice bounds out of range (low > high)")
		if l.Kind == LArr && len(l.Path) == 0 {
			return MkSlice(l.Ref, smt.BVAdd(l.Idx, lo), smt.BVSub(hi, lo), smt.BVSub(limit, lo))
		}
		return x.sliceOfInlineArray(st, l, at, lo, hi, limit)
	}
	unsupp("Slice on %s", in.X.Type())
	return nil
}

func (x *exec) makeSlice(st *pstate, in *ssa.MakeSlice) Val {
	ln, _ := x.to64(st, in.Len)
	cp, _ := x.to64(st, in.Cap)
	et := in.Type().Underlying().(*types.Slice).Elem()
	ob := x.ord[in]
	x.check(st, ob+".len", "make", smt.BVUle(ln, maxLen), in.Pos(), "makeslice: len out of range")
	x.check(st, ob+".cap", "make", smt.And(smt.BVUle(ln, cp), smt.BVUle(cp, maxLen)), in.Pos(), "makeslice: cap out of range")
	ref := x.env.Alloc(st.State)
	x.env.SetBacking(st.heap, et, ref, x.p.T.ZeroArray(et))
	x.checkValueInv(st, x.p.T.Zero(et), et, ob+".typeinv", in.Pos(), "the zero elements of the new slice")
	x.ghostAlloc(st, smt.BVMul(cp, bv64(sizeOf(et))))
	return MkSlice(ref, bv64(0), ln, cp)
}

// ---- return / panic

func (x *exec) doPanic(st *pstate, in *ssa.Panic) {
	x.emit(st, x.ord[in], "panic", smt.False, in.Pos(), "explicit panic is unreachable")
}

func (x *exec) doReturn(st *pstate, in *ssa.Return) {
	sc := x.entry.push()
	// bind results
	res := x.fn.Signature.Results()
	var cnames []string
	for _, r := range x.c.C.Results {
		cnames = append(cnames, r.Name)
	}
	if len(cnames) != 0 && len(cnames) != res.Len() {
		panic(specErr{fmt.Sprintf("%s: contract of %s declares %d results, function has %d", x.c.C.Pos, x.c.C.Key(), len(cnames), res.Len())})
	}
	ev := x.evalAt(st, sc)
	for i := 0; i < res.Len(); i++ {
		v := x.val(st, in.Results[i])
		sv := ev.FromVal(v, res.At(i).Type())
		if i < len(cnames) && cnames[i] != "" && cnames[i] != "_" {
			sc.vars[cnames[i]] = sv
		} else if n := res.At(i).Name(); n != "" && n != "_" {
			sc.vars[n] = sv
		}
		sc.vars[fmt.Sprintf("result%d", i)] = sv
		if res.Len() == 1 {
			sc.vars["result"] = sv
		}
	}
	for i := 0; i < res.Len(); i++ {
		if rt, isTerm := x.val(st, in.Results[i]).(*smt.Term); isTerm {
			x.checkValueInv(st, rt, res.At(i).Type(), fmt.Sprintf("typeinv.result%d", i), in.Pos(), "the returned value")
		}
	}
	if len(x.ownedParams) > 0 || len(st.owned) > 0 || len(st.heapOwned) > 0 {
		var rvals []Val
		for i := 0; i < res.Len(); i++ {
			rvals = append(rvals, x.val(st, in.Results[i]))
		}
		x.ownedExit(st, sc, rvals, in)
	}
	x.monitorExit(st, in)
	if !mayAllocate(x.c) && !x.c.C.Trusted {
		cur := x.env.heapVar(st.heap, "allocated", BV64)
		old := x.env.heapVar(x.old, "allocated", BV64)
		if cur != old {
			x.emit(st, "noalloc", "post", smt.Eq(cur, old), in.Pos(), "function without `mayalloc` performs no counted allocation (make, string conversion)")
		}
	}
	for i, e := range x.c.C.Ensures {
		ev := x.evalAt(st, sc)
		ev.Pos = e.Pos
		goal := ev.Bool(e.E)
		name := fmt.Sprintf("post[%d]", i)
		if e.Label != "" {
			name = "post." + e.Label
		}
		x.emit(st, name, "post", goal, in.Pos(), "postcondition "+e.Text)
	}
	for _, b := range x.c.C.Behaviors {
		bsc := sc.push()
		for k, v := range x.behScope[b.Name].vars {
			bsc.vars[k] = v
		}
		ev := x.evalAt(st, bsc)
		var as []*smt.Term
		for _, a := range b.Assumes {
			ev.Pos = a.Pos
			// behaviours speak about the entry state
			as = append(as, ev.with(x.old).inScope(x.behScope[b.Name]).Bool(a.E))
		}
		for i, e := range b.Ensures {
			ev.Pos = e.Pos
			goal := smt.Implies(smt.And(as...), ev.Bool(e.E))
			x.emit(st, fmt.Sprintf("behavior.%s[%d]", b.Name, i), "post", goal, in.Pos(), "behavior "+b.Name+": "+e.Text)
		}
	}
}
