package vc

import (
	"fmt"
	"go/token"
	"go/types"
	"os"
	"strings"

	"golang.org/x/tools/go/ssa"

	"govc/smt"
	"govc/spec"
)

// tval is a source-level variable binding.
type tval struct {
	v Val
	t types.Type
}

// varScope builds the specification scope of the current source-level variables on top of the entry scope.
func (x *exec) varScope(st *pstate) *scope {
	sc := x.entry.push()
	ev := x.evalAt(st, nil)
	for name, b := range st.vars {
		tv, ok := b.(tval)
		if !ok {
			continue
		}
		if strings.HasPrefix(name, "&") {
			if l, ok := tv.v.(*Loc); ok {
				et := tv.t.Underlying().(*types.Pointer).Elem()
				if l.Kind == LArr && len(l.Path) == 0 {
					continue
				}
				sc.vars[name[1:]] = ev.FromVal(x.wrap(x.load(st, l), et), et)
			}
			continue
		}
		if _, isFn := tv.v.(*FuncVal); isFn {
			continue
		}
		if _, isTup := tv.v.(Tuple); isTup {
			continue
		}
		sc.vars[name] = ev.FromVal(tv.v, tv.t)
	}
	return sc
}

// ---- loops

func (x *exec) loopSpec(ord int) *spec.LoopSpec {
	ls, ok := x.c.C.Loops[ord]
	if !ok {
		ls = &spec.LoopSpec{}
	}
	// `for i := range s` loops: the hidden index starts at -1 and is incremented before the test;
	// that it never gets below -1 is an invariant nobody wants to write down (it is checked like any other)
	for h, o := range x.loopOrd {
		if o != ord {
			continue
		}
		for _, in := range h.Instrs {
			if phi, isPhi := in.(*ssa.Phi); isPhi && phi.Comment == "rangeindex" {
				implicit := &spec.Clause{Label: "rangeindex", Text: "(implicit) -1 <= rangeindex && rangeindex < 1<<62",
					E: &spec.Binary{Op: "&&",
						X: &spec.Binary{Op: "<=", X: &spec.Unary{Op: "-", X: &spec.IntLit{Text: "1"}}, Y: &spec.Ident{Name: "rangeindex"}},
						Y: &spec.Binary{Op: "<", X: &spec.Ident{Name: "rangeindex"}, Y: &spec.IntLit{Text: "4611686018427387904"}}}}
				n := &spec.LoopSpec{Decreases: ls.Decreases}
				n.Invariants = append(append([]*spec.Clause{}, ls.Invariants...), implicit)
				return n
			}
		}
	}
	return ls
}

func (x *exec) phiEdgeValues(st *pstate, b, pred *ssa.BasicBlock) ([]*ssa.Phi, []Val) {
	idx := -1
	for i, p := range b.Preds {
		if p == pred {
			idx = i
		}
	}
	var vals []Val
	var phis []*ssa.Phi
	for _, in := range b.Instrs {
		phi, ok := in.(*ssa.Phi)
		if !ok {
			break
		}
		phis = append(phis, phi)
		vals = append(vals, x.val(st, phi.Edges[idx]))
	}
	return phis, vals
}

func (x *exec) enterLoop(st *pstate, b, pred *ssa.BasicBlock, ord int) {
	ls := x.loopSpec(ord)
	if x.p.T.ownedDecl != nil {
		x.loopGuardOwned(b)
	}
	phis, vals := x.phiEdgeValues(st, b, pred)
	for i, phi := range phis {
		st.vals.m[phi] = vals[i]
		if phi.Comment != "" {
			if phi.Comment == "rangeindex" {
				// nested range loops: the hidden index of the enclosing range loop stays nameable as `outerindex`
				var outerH *ssa.BasicBlock
				for h, body := range x.loopBody {
					if h == b || !body[b] || st.active[h] == nil {
						continue
					}
					if outerH == nil || len(body) < len(x.loopBody[outerH]) {
						outerH = h
					}
				}
				if outerH != nil {
					for _, in := range outerH.Instrs {
						if op, isPhi := in.(*ssa.Phi); isPhi && op.Comment == "rangeindex" {
							if ov, ok := st.vals.get(op); ok {
								st.vars["outerindex"] = tval{ov, op.Type()}
							}
						}
					}
				}
			}
			st.vars[phi.Comment] = tval{vals[i], phi.Type()}
		}
	}
	pos := b.Instrs[0].Pos()
	for _, in := range b.Instrs {
		if in.Pos().IsValid() {
			pos = in.Pos()
			break
		}
	}
	// invariant holds on entry
	for j, inv := range ls.Invariants {
		ev := x.evalAt(st, x.varScope(st))
		ev.OldScope = x.entry
		ev.Pos = inv.Pos
		x.emit(st, fmt.Sprintf("loop%d.inv[%d].entry", ord, j), "loop", ev.Bool(inv.E), pos, "loop invariant holds on entry: "+inv.Text)
	}
	// forget what the loop changes
	x.havocForLoop(st, b)
	for _, m := range x.localMapsWrittenIn(st, b) {
		x.havocLocalMap(st, m)
	}
	for _, phi := range phis {
		s := x.p.T.SortOf(phi.Type())
		nv := x.env.FreshVal("loop$"+phi.Comment, s)
		st.assume(x.p.T.Inv(nv, phi.Type(), 0), "type invariant of loop variable "+phi.Comment)
		x.assumeAllocated(st, nv, phi.Type())
		w := x.wrap(nv, phi.Type())
		st.vals.m[phi] = w
		if phi.Comment != "" {
			st.vars[phi.Comment] = tval{w, phi.Type()}
		}
	}
	for _, inv := range ls.Invariants {
		ev := x.evalAt(st, x.varScope(st))
		ev.OldScope = x.entry
		ev.Pos = inv.Pos
		t := ev.Bool(inv.E)
		if os.Getenv("GOVC_DEBUG_INV") != "" {
			var names []string
			for k := range st.vars {
				names = append(names, k)
			}
			fmt.Fprintf(os.Stderr, "DEBUG inv %s vars=%v term=%.300s\n", inv.Text, names, t.String())
		}
		st.assume(t, "loop invariant "+inv.Text)
	}
	lc := &loopCtx{}
	if ls.Decreases != nil {
		ev := x.evalAt(st, x.varScope(st))
		ev.OldScope = x.entry
		ev.Pos = ls.Decreases.Pos
		lc.measure = ev.as64(ev.Eval(ls.Decreases.E))
	}
	st.active[b] = lc
	st.trace = append(st.trace, fmt.Sprintf("loop%d", ord))
}

func (x *exec) closeLoop(st *pstate, b, pred *ssa.BasicBlock, ord int, lc *loopCtx) {
	ls := x.loopSpec(ord)
	phis, vals := x.phiEdgeValues(st, b, pred)
	for i, phi := range phis {
		st.vals.m[phi] = vals[i]
		if phi.Comment != "" {
			st.vars[phi.Comment] = tval{vals[i], phi.Type()}
		}
	}
	pos := pred.Instrs[len(pred.Instrs)-1].Pos()
	for _, in := range b.Instrs {
		if in.Pos().IsValid() {
			pos = in.Pos()
			break
		}
	}
	for j, inv := range ls.Invariants {
		ev := x.evalAt(st, x.varScope(st))
		ev.OldScope = x.entry
		ev.Pos = inv.Pos
		x.emit(st, fmt.Sprintf("loop%d.inv[%d].preserved", ord, j), "loop", ev.Bool(inv.E), pos, "loop invariant is preserved: "+inv.Text)
	}
	if ls.Decreases != nil {
		ev := x.evalAt(st, x.varScope(st))
		ev.OldScope = x.entry
		ev.Pos = ls.Decreases.Pos
		m := ev.as64(ev.Eval(ls.Decreases.E))
		goal := smt.And(smt.BVSge(lc.measure, bv64(0)), smt.BVSlt(m, lc.measure))
		x.emit(st, fmt.Sprintf("loop%d.decreases", ord), "loop", goal, pos, "loop measure decreases and is bounded: "+ls.Decreases.Text)
	} else {
		x.res.Notes = append(x.res.Notes, fmt.Sprintf("loop %d has no decreases clause: termination not proved", ord))
	}
	x.pathNo++
}

// ---- calls

func (x *exec) call(st *pstate, in *ssa.Call) bool {
	cc := &in.Call
	var args []Val
	var argTypes []types.Type
	if cc.IsInvoke() {
		args = append(args, x.val(st, cc.Value))
		argTypes = append(argTypes, cc.Value.Type())
	}
	for _, a := range cc.Args {
		args = append(args, x.val(st, a))
		argTypes = append(argTypes, a.Type())
	}
	r, done := x.callCommonT(st, cc, args, argTypes, in)
	if done {
		return true
	}
	if r != nil {
		x.set(st, in, r)
	}
	return false
}

func (x *exec) callCommon(st *pstate, cc *ssa.CallCommon, args []Val, in ssa.Instruction, _ any) {
	var argTypes []types.Type
	if cc.IsInvoke() {
		argTypes = append(argTypes, cc.Value.Type())
	}
	for _, a := range cc.Args {
		argTypes = append(argTypes, a.Type())
	}
	x.callCommonT(st, cc, args, argTypes, in)
}

func (x *exec) callCommonT(st *pstate, cc *ssa.CallCommon, args []Val, argTypes []types.Type, in ssa.Instruction) (Val, bool) {
	if b, ok := cc.Value.(*ssa.Builtin); ok {
		return x.builtin(st, b.Name(), cc, args, argTypes, in), false
	}
	if cc.IsInvoke() {
		return x.invoke(st, cc, args, argTypes, in), false
	}
	var callee *ssa.Function
	var bindings []Val
	if f := cc.StaticCallee(); f != nil {
		callee = f
		if mc, ok := cc.Value.(*ssa.MakeClosure); ok {
			for _, b := range mc.Bindings {
				bindings = append(bindings, x.val(st, b))
			}
		}
	} else if fv, ok := x.val(st, cc.Value).(*FuncVal); ok && fv.Fn != nil {
		callee = fv.Fn
		bindings = fv.Bindings
	}
	if callee == nil && x.selfThroughCapture(cc.Value) {
		// `var f func(..); f = func(..) { ... f(..) ... }`: the recursive call of a closure through the
		// variable it was assigned to
		callee = x.fn
		for _, fv := range x.fn.FreeVars {
			bindings = append(bindings, x.val(st, fv))
		}
	}
	if callee == nil {
		// `var f func(..); f = func(..) {..}; ... f(..)`: a call of a local closure through its variable
		if mc := closureThroughCell(cc.Value, in); mc != nil {
			callee = mc.Fn.(*ssa.Function)
			for _, b := range mc.Bindings {
				bindings = append(bindings, x.val(st, b))
			}
			x.p.Assumptions["a local closure called through the variable it is assigned to ("+callee.Name()+") is resolved statically: the variable is assigned exactly once, before the call (checked on the SSA form)"] = true
		}
	}
	if callee == nil {
		return x.dynamicCall(st, cc, args, argTypes, in), false
	}
	if r, handled, done := x.special(st, callee, cc, args, argTypes, in); handled {
		return r, done
	}
	c := x.p.ContractOf(callee)
	if c == nil {
		if call, isCall := in.(*ssa.Call); isCall && len(bindings) == 0 && x.canInline(st, callee) {
			x.inlineCall(st, call, callee, args)
			return nil, true
		}
		unsupp("call to %s without contract at %s", FuncKey(callee), x.p.Fset.Position(in.Pos()))
	}
	allArgs := args
	allTypes := argTypes
	if len(bindings) > 0 {
		// closures: the captured variables are further inputs of the contract, named after themselves
		if len(bindings) != len(callee.FreeVars) {
			unsupp("call of closure %s: %d bindings for %d captured variables", callee.Name(), len(bindings), len(callee.FreeVars))
		}
		allArgs = append(append([]Val{}, args...), bindings...)
		allTypes = append([]types.Type{}, argTypes...)
		for _, fv := range callee.FreeVars {
			allTypes = append(allTypes, fv.Type())
		}
	}
	return x.applyContract(st, c, callee, allArgs, allTypes, in), false
}

// closureThroughCell: v is a load of a local variable of function type that the function assigns
// exactly once, with a closure, and the assignment dominates the instruction at. Returns the closure.
func closureThroughCell(v ssa.Value, at ssa.Instruction) *ssa.MakeClosure {
	u, ok := v.(*ssa.UnOp)
	if !ok || u.Op != token.MUL {
		return nil
	}
	cell, ok := u.X.(*ssa.Alloc)
	if !ok || cell.Referrers() == nil {
		return nil
	}
	var mc *ssa.MakeClosure
	var store *ssa.Store
	for _, ref := range *cell.Referrers() {
		switch r := ref.(type) {
		case *ssa.Store:
			m, isMC := r.Val.(*ssa.MakeClosure)
			if r.Addr != ssa.Value(cell) || !isMC || store != nil {
				return nil
			}
			mc, store = m, r
		case *ssa.MakeClosure, *ssa.UnOp, *ssa.DebugRef:
		default:
			return nil
		}
	}
	if mc == nil {
		return nil
	}
	for _, ref := range *cell.Referrers() {
		// captured only by the closure itself (another closure might assign the variable)
		if r, isMC := ref.(*ssa.MakeClosure); isMC && r != mc {
			return nil
		}
	}
	sb, ab := store.Block(), at.Block()
	if sb == ab {
		si, ai := -1, -1
		for i, in := range sb.Instrs {
			if in == ssa.Instruction(store) {
				si = i
			}
			if in == at {
				ai = i
			}
		}
		if si < 0 || ai < 0 || si > ai {
			return nil
		}
	} else if !sb.Dominates(ab) {
		return nil
	}
	return mc
}

// selfThroughCapture: v is a load of a captured variable of function type that the enclosing
// function assigns exactly once, namely with the closure under verification. Checked on the SSA of
// the enclosing function: the variable's cell is only stored to by that one assignment, loaded, and
// captured.
func (x *exec) selfThroughCapture(v ssa.Value) bool {
	u, ok := v.(*ssa.UnOp)
	if !ok || u.Op != token.MUL {
		return false
	}
	fv, ok := u.X.(*ssa.FreeVar)
	if !ok {
		return false
	}
	parent := x.fn.Parent()
	if parent == nil {
		return false
	}
	idx := -1
	for i, f := range x.fn.FreeVars {
		if f == fv {
			idx = i
		}
	}
	if idx < 0 {
		return false
	}
	var cell *ssa.Alloc
	for _, b := range parent.Blocks {
		for _, in := range b.Instrs {
			if mc, ok := in.(*ssa.MakeClosure); ok && mc.Fn == ssa.Value(x.fn) && idx < len(mc.Bindings) {
				a, ok := mc.Bindings[idx].(*ssa.Alloc)
				if !ok || (cell != nil && cell != a) {
					return false
				}
				cell = a
			}
		}
	}
	if cell == nil {
		return false
	}
	stores := 0
	for _, ref := range *cell.Referrers() {
		switch r := ref.(type) {
		case *ssa.Store:
			if r.Addr != ssa.Value(cell) {
				return false // the address itself is stored somewhere
			}
			mc, ok := r.Val.(*ssa.MakeClosure)
			if !ok || mc.Fn != ssa.Value(x.fn) {
				return false
			}
			stores++
		case *ssa.MakeClosure:
			if r.Fn != ssa.Value(x.fn) {
				return false // captured by another closure, which might assign it
			}
		case *ssa.UnOp, *ssa.DebugRef:
		default:
			return false
		}
	}
	if stores != 1 {
		return false
	}
	x.p.Assumptions["a closure that calls itself through the variable it is assigned to ("+x.fn.Name()+") is treated as recursive: the variable is assigned exactly once in the enclosing function (checked on its SSA form)"] = true
	return true
}

// target is something an assigns clause names.
type target struct {
	loc   *Loc      // a cell
	ref   *smt.Term // or a range [lo,hi) of absolute indices in backing array ref
	lo    *smt.Term
	hi    *smt.Term
	elem  types.Type
	guard *smt.Term // the write happens only under this condition (nil = always)
	heaps []leaf    // or whole leaf heaps (allof)
	heapOf    types.Type // allof: the struct type ...
	heapField int        // ... and field whose heaps these are
}

func (x *exec) evalAssign(ev *Eval, a spec.Expr) target {
	if c, ok := a.(*spec.Call); ok {
		if id, ok := c.Fun.(*spec.Ident); ok && id.Name == "allof" {
			// allof(p.f): the field f of every object of p's type (the whole leaf heap)
			inner := x.evalAssign(ev, c.Args[0])
			if inner.loc == nil || inner.loc.Kind != LRoot || len(inner.loc.Path) != 1 || inner.loc.Path[0].Idx != nil {
				ev.fail("allof() takes a field of a struct cell")
			}
			si := x.p.T.StructOf(inner.loc.Root)
			f := si.Fields[inner.loc.Path[0].Field]
			var ls []leaf
			x.env.leafNames("H$"+si.Sort.Name+"."+sanitize(f.Name()), x.p.T.SortOf(f.Type()), &ls)
			return target{heaps: ls, heapOf: inner.loc.Root, heapField: inner.loc.Path[0].Field}
		}
		if id, ok := c.Fun.(*spec.Ident); ok && (id.Name == "spare" || id.Name == "content" || id.Name == "backing") {
			v := ev.Eval(c.Args[0])
			sl, ok := v.T.Underlying().(*types.Slice)
			if !ok {
				ev.fail("%s() takes a slice", id.Name)
			}
			off, ln, cp := SlOff(v.Term), SlLen(v.Term), SlCap(v.Term)
			switch id.Name {
			case "spare":
				return target{ref: SlRef(v.Term), lo: smt.BVAdd(off, ln), hi: smt.BVAdd(off, cp), elem: sl.Elem()}
			case "backing":
				return target{ref: SlRef(v.Term), lo: off, hi: smt.BVAdd(off, cp), elem: sl.Elem()}
			}
			return target{ref: SlRef(v.Term), lo: off, hi: smt.BVAdd(off, ln), elem: sl.Elem()}
		}
	}
	switch a := a.(type) {
	case *spec.Unary:
		if a.Op == "*" {
			v := ev.Eval(a.X)
			if v.Loc == nil {
				ev.fail("assigns: not a location")
			}
			return target{loc: v.Loc}
		}
	case *spec.Selector:
		v := ev.Eval(a.X)
		if v.Loc != nil {
			if pt, ok := v.T.Underlying().(*types.Pointer); ok {
				if st, ok := pt.Elem().Underlying().(*types.Struct); ok {
					fi, ft := fieldIndex(st, a.Name)
					if fi >= 0 {
						return target{loc: x.env.Field(v.Loc, fi, ft)}
					}
				}
			}
		}
		// field of an assignable struct location: recurse
		inner := x.evalAssign(ev, a.X)
		if inner.loc != nil {
			if st, ok := inner.loc.Type().Underlying().(*types.Struct); ok {
				fi, ft := fieldIndex(st, a.Name)
				if fi >= 0 {
					return target{loc: x.env.Field(inner.loc, fi, ft)}
				}
			}
		}
	case *spec.Index:
		v := ev.Eval(a.X)
		if sl, ok := v.T.Underlying().(*types.Slice); ok {
			i := ev.as64(ev.Eval(a.I))
			return target{loc: &Loc{Kind: LElem, Ref: SlRef(v.Term), Idx: smt.BVAdd(SlOff(v.Term), i), Root: sl.Elem()}}
		}
	case *spec.SliceE:
		v := ev.Eval(a)
		if sl, ok := v.T.Underlying().(*types.Slice); ok {
			off, ln := SlOff(v.Term), SlLen(v.Term)
			return target{ref: SlRef(v.Term), lo: off, hi: smt.BVAdd(off, ln), elem: sl.Elem()}
		}
	}
	ev.fail("unsupported assigns entry")
	return target{}
}

// havocTarget forgets the content of a target in st.
func (x *exec) havocTarget(st *pstate, t target) {
	if t.heaps != nil {
		for _, lf := range t.heaps {
			st.heap[lf.name] = x.env.Fresh(lf.name+"$havoc", lf.sort)
		}
		return
	}
	if t.loc != nil {
		if t.loc.global != nil {
			return
		}
		s := x.p.T.SortOf(t.loc.Type())
		nv := x.env.FreshVal("havoc", s)
		st.assume(x.p.T.Inv(nv, t.loc.Type(), 0), "type invariant of assigned location")
		x.env.Store(st.heap, t.loc, nv)
		return
	}
	old := x.env.Backing(st.heap, t.elem, t.ref)
	nv := x.env.Fresh("havocarr", old.Sort)
	qcount++
	j := smt.BVar("j!"+itoa(qcount), BV64)
	inside := smt.And(smt.BVUle(t.lo, j), smt.BVUlt(j, t.hi))
	st.assume(smt.Forall([]*smt.Term{j}, smt.Implies(smt.Not(inside), smt.Eq(smt.Select(nv, j), smt.Select(old, j)))), "frame of assigned range")
	x.env.SetBacking(st.heap, t.elem, t.ref, nv)
}

// covered: the write target t is permitted by the function's own assigns clause (evaluated at entry).
func (x *exec) covered(st *pstate, t target) *smt.Term {
	var alts []*smt.Term
	if x.monitor != nil && !x.monitor.holdsLock {
		return smt.True // see monitorCovers
	}
	if t.heaps != nil {
		if x.monitor != nil && !x.monitor.holdsLock {
			return smt.True
		}
		// every leaf heap must be named by an allof() entry of the function's own assigns clause
		allowed := map[string]bool{}
		entrySt := &pstate{State: &State{heap: x.old}}
		ev := x.evalAt(entrySt, x.entry)
		ev.Heap, ev.Old = x.old, x.old
		for _, a := range x.c.C.Assigns {
			for _, lf := range x.evalAssign(ev, a).heaps {
				allowed[lf.name] = true
			}
		}
		for _, lf := range t.heaps {
			if !allowed[lf.name] {
				return smt.False
			}
		}
		return smt.True
	}
	// freshly allocated memory is always writable
	if t.loc != nil {
		if t.loc.fresh {
			return smt.True
		}
		alts = append(alts, smt.IGe(t.loc.Ref, x.next0))
		if t.loc.Ref.Op == "app" && strings.HasPrefix(t.loc.Ref.Name, "fa$") {
			// an embedded object (field of struct type): fresh iff the object it is embedded in is
			x.p.D.AddFunc("rbase", smt.Int, smt.Int)
			alts = append(alts, smt.IGe(smt.App("rbase", smt.Int, t.loc.Ref), x.next0))
			parent := t.loc.Ref
			for parent.Op == "app" && strings.HasPrefix(parent.Name, "fa$") && len(parent.Args) == 1 {
				parent = parent.Args[0]
			}
			alts = append(alts, smt.IGe(parent, x.next0))
		}
	} else {
		alts = append(alts, smt.IGe(t.ref, x.next0))
		alts = append(alts, smt.BVUge(t.lo, t.hi)) // empty range
	}
	entrySt := &pstate{State: &State{heap: x.old}}
	ev := x.evalAt(entrySt, x.entry)
	ev.Heap = x.old
	ev.Old = x.old
	for _, a := range x.c.C.Assigns {
		at := x.evalAssign(ev, a)
		alts = append(alts, matchTarget(at, t))
	}
	if x.monitor != nil && t.loc != nil {
		if g := x.monitorCovers(t.loc); g != nil {
			alts = append(alts, g)
		}
	}
	return smt.Or(alts...)
}

// matchTarget: allowed (from the assigns clause) covers written.
func matchTarget(allowed, written target) *smt.Term {
	if allowed.heaps != nil {
		// allof(p.f) covers the field f of every object
		if written.loc != nil && written.loc.Kind == LRoot && len(written.loc.Path) >= 1 && written.loc.Path[0].Idx == nil && allowed.heapOf != nil {
			if types.Identical(allowed.heapOf, written.loc.Root) && allowed.heapField == written.loc.Path[0].Field {
				return smt.True
			}
		}
		return smt.False
	}
	switch {
	case allowed.loc != nil && written.loc != nil:
		a, w := allowed.loc, written.loc
		if a.Kind != w.Kind || !types.Identical(a.Root, w.Root) || len(a.Path) > len(w.Path) {
			if a.Kind == LRoot && w.Kind == LRoot && len(a.Path) <= len(w.Path) && a.Ref != nil && w.Ref != nil && a.Root.String() == w.Root.String() {
				// same root type by name (generic instantiation vs origin)
			} else {
				return smt.False
			}
		}
		cs := []*smt.Term{smt.Eq(a.Ref, w.Ref)}
		if a.Kind == LElem {
			cs = append(cs, smt.Eq(a.Idx, w.Idx))
		}
		for i, pe := range a.Path {
			we := w.Path[i]
			if (pe.Idx == nil) != (we.Idx == nil) {
				return smt.False
			}
			if pe.Idx != nil {
				cs = append(cs, smt.Eq(pe.Idx, we.Idx))
			} else if pe.Field != we.Field {
				return smt.False
			}
		}
		return smt.And(cs...)
	case allowed.loc == nil && written.loc != nil:
		w := written.loc
		if w.Kind != LElem || x_sortName(allowed.elem) != x_sortName(w.Root) {
			return smt.False
		}
		return smt.And(smt.Eq(allowed.ref, w.Ref), smt.BVUle(allowed.lo, w.Idx), smt.BVUlt(w.Idx, allowed.hi))
	case allowed.loc == nil && written.loc == nil:
		if x_sortName(allowed.elem) != x_sortName(written.elem) {
			return smt.False
		}
		return smt.And(smt.Eq(allowed.ref, written.ref), smt.BVUle(allowed.lo, written.lo), smt.BVUle(written.hi, allowed.hi), smt.BVUle(written.lo, written.hi))
	default:
		a := allowed.loc
		if a.Kind != LElem || len(a.Path) != 0 {
			return smt.False
		}
		// a single element covers a range of length <= 1 at that index
		return smt.And(smt.Eq(a.Ref, written.ref), smt.Eq(a.Idx, written.lo), smt.BVUle(written.hi, smt.BVAdd(written.lo, bv64(1))))
	}
}

func x_sortName(t types.Type) string { return typeKey(t) }

func (x *exec) frameCheck(st *pstate, l *Loc, in ssa.Instruction) {
	if l.fresh || l.global != nil || x.c.C.Trusted {
		return
	}
	goal := x.covered(st, target{loc: l})
	if goal.IsTrue() {
		return
	}
	x.check(st, "frame."+x.ord[in], "frame", goal, in.Pos(), "store is permitted by the assigns clause")
}

func (x *exec) frameCheckRange(st *pstate, t target, in ssa.Instruction, what string) {
	goal := x.covered(st, t)
	if t.guard != nil {
		goal = smt.Implies(t.guard, goal)
	}
	if goal.IsTrue() {
		return
	}
	x.check(st, "frame."+x.ord[in]+what, "frame", goal, in.Pos(), "write is permitted by the assigns clause")
}

// callInfo is what applying a contract needs to know about the callee.
type callInfo struct {
	names   []string
	sig     *types.Signature
	name    string
	key     string
	tparams map[string]types.Type
}

func (x *exec) applyContract(st *pstate, c *Contract, callee *ssa.Function, args []Val, argTypes []types.Type, in ssa.Instruction) Val {
	// type parameters of the callee bound to the actual type arguments
	tparams := map[string]types.Type{}
	origin := callee
	if o := callee.Origin(); o != nil {
		origin = o
	}
	if tps := origin.TypeParams(); tps != nil {
		targs := callee.TypeArgs()
		for i := 0; i < tps.Len(); i++ {
			if i < len(targs) {
				tparams[tps.At(i).Obj().Name()] = targs[i]
			} else {
				tparams[tps.At(i).Obj().Name()] = tps.At(i)
			}
		}
	}
	ci := callInfo{names: contractParamNames(c, callee), sig: callee.Signature, name: callee.Name(), key: FuncKey(callee), tparams: tparams}
	if len(args) == len(ci.names)+len(callee.FreeVars) {
		for _, fv := range callee.FreeVars {
			ci.names = append(ci.names, fv.Name())
		}
	}
	if !c.C.Trusted && origin.Pkg != nil && x.fn.Pkg != nil && origin.Pkg != x.fn.Pkg {
		x.p.Assumptions["contract of "+ci.key+" is used as given; it is discharged by the check of its own package"] = true
	}
	return x.applyContractInfo(st, c, ci, args, argTypes, in)
}

func (x *exec) applyContractInfo(st *pstate, c *Contract, ci callInfo, args []Val, argTypes []types.Type, in ssa.Instruction) Val {
	names := ci.names
	tparams := ci.tparams
	if len(names) != len(args) {
		panic(specErr{fmt.Sprintf("%s: contract of %s has %d parameters, call has %d arguments", c.C.Pos, c.C.Key(), len(names), len(args))})
	}
	if c.C.Trusted {
		x.p.Trusted[ci.key] = true
	}
	sc := &scope{vars: map[string]SV{}}
	mkEval := func(heap, old map[string]*smt.Term) *Eval {
		return &Eval{P: x.p, Env: x.env, Pkg: c.Pkg, Heap: heap, Old: old, Scope: sc, TParams: tparams, Facts: func(t *smt.Term) { st.assume(t, "type invariant of a value read by a specification") },
			Owned: func(r *ownedRef) *smt.Term { return x.ownedTerm(st, r, in.Pos()) }, ufSeen: x.ufSeenOf(st)}
	}
	ev := mkEval(st.heap, st.heap)
	for i, n := range names {
		sc.vars[n] = ev.FromVal(args[i], argTypes[i])
	}
	ob := x.ord[in]
	if len(c.C.Ghost) > 0 {
		// ghost parameters are instantiated by a `callghost <ordinal> name = expr` clause of the caller's contract
		ordinal := -1
		fmt.Sscanf(ob, "call[%d]", &ordinal)
		given := x.c.C.CallGhost[ordinal]
		cev := x.evalAt(st, x.varScope(st))
		cev.OldScope = x.entry
		for _, g := range c.C.Ghost {
			found := false
			for _, ga := range given {
				if ga.Name != g.Name {
					continue
				}
				found = true
				gt := ev.ResolveType(g.Type)
				v := cev.Eval(ga.E)
				v = cev.coerce(v, gt)
				if v.T != nil && isUntypedNil(v.T) {
					v = cev.nilOf(gt)
				}
				if v.T == nil || cev.term(v).Sort != x.p.T.SortOf(gt) {
					panic(specErr{fmt.Sprintf("%s: ghost argument %s of %s has the wrong type", x.c.C.Pos, g.Name, ob)})
				}
				sc.vars[g.Name] = SV{T: gt, Term: cev.term(v)}
			}
			if !found {
				unsupp("%s to %s needs the ghost argument %s (add `callghost %d %s = ...` to the contract of %s)", ob, c.C.Key(), g.Name, ordinal, g.Name, x.c.C.Key())
			}
		}
	}
	for j, r := range c.C.Requires {
		ev.Pos = r.Pos
		lab := fmt.Sprintf("%s.pre[%d]", ob, j)
		if r.Label != "" {
			lab = ob + ".pre." + r.Label
		}
		x.check(st, lab, "pre", ev.Bool(r.E), in.Pos(), fmt.Sprintf("precondition of %s: %s", c.C.Key(), r.Text))
	}
	for i, a := range args {
		if at, isTerm := a.(*smt.Term); isTerm && i < len(argTypes) {
			x.checkValueInv(st, at, argTypes[i], fmt.Sprintf("%s.typeinv[%d]", ob, i), in.Pos(), "the argument passed to "+ci.name)
		}
	}
	// recursion: a function with a `decreases` measure calls itself only with a smaller, non-negative measure
	if c == x.c && c.C.Decreases != nil && x.entryMeasure != nil {
		ev.Pos = c.C.Decreases.Pos
		m := ev.as64(ev.coerce(ev.Eval(c.C.Decreases.E), tInt))
		x.check(st, ob+".decreases", "termination", smt.And(smt.BVSge(m, bv64(0)), smt.BVSlt(m, x.entryMeasure)), in.Pos(),
			"the measure of the recursive call is non-negative and smaller: "+c.C.Decreases.Text)
	}
	x.monitorCallPre(st, c, ci, args, in)
	pre := st.heapSnapshot()
	evPre := mkEval(pre, pre)
	if !c.C.Pure {
		// allocation
		next := x.env.Next(st.heap)
		nn := x.env.Fresh("next$call", smt.Int)
		st.assume(smt.IGe(nn, next), "allocation only grows")
		st.heap["next"] = nn
		if mayAllocate(c) {
			al := x.env.heapVar(st.heap, "allocated", BV64)
			na := x.env.Fresh("allocated$call", BV64)
			st.heap["allocated"] = na
			_ = al
		}
		for _, a := range c.C.Assigns {
			if id, isId := a.(*spec.Ident); isId {
				if i := indexOf(names, id.Name); i >= 0 && x.p.T.OwnedOf(argTypes[i]) != nil {
					continue // an owned structure modified in place: handled below
				}
			}
			if sel, isSel := a.(*spec.Selector); isSel {
				if id, isId := sel.X.(*spec.Ident); isId {
					if i := indexOf(names, id.Name); i >= 0 && x.p.T.OwnedOf(argTypes[i]) != nil {
						continue // fields of the root node of an owned structure: handled below
					}
				}
			}
			t := x.evalAssign(evPre, a)
			if !x.c.C.Trusted {
				x.frameCheckRange(st, t, in, ".assigns")
			}
			x.havocTarget(st, t)
		}
		if len(st.heapOwned) > 0 {
			// handles of structures kept in heap cells: the call may change those cells
			for k, r := range st.heapOwned {
				if cell := x.ocell(st, r); cell.moved == "" && cell.fields == nil && cell.abs == r.init {
					delete(st.heapOwned, k)
				}
			}
		}
	}
	// owned structures handed to the callee
	for i, n := range names {
		r, isOwned := args[i].(*ownedRef)
		if !isOwned {
			continue
		}
		switch c.C.OwnedMode(n) {
		case "consumes":
			if r.view {
				x.ownedViolation(st, in.Pos(), "a read-only view is passed to a consuming call")
			}
			x.markMoved(st, r, true, "passed to "+ci.name+", which consumes it")
			st.epoch++
		case "releases":
			if r.view {
				x.ownedViolation(st, in.Pos(), "a read-only view is passed to a releasing call")
			}
			cell := x.ocell(st, r)
			cell.moved = "its node was released by " + ci.name
			cell.fields, cell.abs = nil, nil
			st.epoch++
		case "assigns":
			if r.view {
				x.ownedViolation(st, in.Pos(), "a read-only view is passed to a call that modifies it")
			}
			nt := x.env.Fresh("now$"+n, x.p.T.SortOf(argTypes[i]))
			x.setAbstract(st, r, nt)
			sc.vars["now$"+n] = SV{T: argTypes[i], Term: nt}
		case "fields":
			if r.view {
				x.ownedViolation(st, in.Pos(), "a read-only view is passed to a call that modifies it")
			}
			// only the listed fields of the root node change; handles below stay valid
			cell := x.materialise(st, r, in)
			oi := x.ownedInfoOf(r.ptr)
			for _, fname := range c.C.OwnedFields(n) {
				fi := -1
				for k, f := range oi.Fields {
					if f.Name() == fname {
						fi = k
					}
				}
				if fi < 0 {
					panic(specErr{fmt.Sprintf("%s: assigns %s.%s: no such field", c.C.Pos, n, fname)})
				}
				nv := x.env.FreshVal("now$"+n+"."+fname, oi.Node.Fields[fi].Sort)
				if oi.Self[fi] {
					if old, ok := cell.fields[fi].(*ownedRef); ok {
						x.markMoved(st, old, true, "the field holding it was overwritten by "+ci.name)
					}
					cell.fields[fi] = x.newOwned(nv, oi.Fields[fi].Type())
				} else {
					st.assume(x.p.T.Inv(nv, oi.Fields[fi].Type(), 0), "type invariant of a field written by "+ci.name)
					cell.fields[fi] = nv
				}
			}
			st.epoch++
			sc.vars["now$"+n] = SV{T: argTypes[i], Term: x.ownedTerm(st, r, in.Pos())}
		}
	}
	// results
	sig := ci.sig
	var results []Val
	var cnames []string
	for _, r := range c.C.Results {
		cnames = append(cnames, r.Name)
	}
	if len(cnames) != 0 && len(cnames) != sig.Results().Len() {
		panic(specErr{fmt.Sprintf("%s: contract of %s declares %d results, function has %d", c.C.Pos, c.C.Key(), len(cnames), sig.Results().Len())})
	}
	post := mkEval(st.heap, pre)
	// result types: from the call instruction (instantiated)
	var rtypes []types.Type
	if v, ok := in.(ssa.Value); ok && sig.Results().Len() > 0 {
		if tup, ok := v.Type().(*types.Tuple); ok {
			for i := 0; i < tup.Len(); i++ {
				rtypes = append(rtypes, tup.At(i).Type())
			}
		} else {
			rtypes = append(rtypes, v.Type())
		}
	} else {
		for i := 0; i < sig.Results().Len(); i++ {
			rtypes = append(rtypes, sig.Results().At(i).Type())
		}
	}
	for i, rt := range rtypes {
		s := x.p.T.SortOf(rt)
		rv := x.env.FreshVal("ret$"+ci.name, s)
		st.assume(x.p.T.Inv(rv, rt, 0), "type invariant of result of "+ci.name)
		x.assumeAllocated(st, rv, rt)
		x.assumeValueInv(st, rv, rt, "result of "+ci.name)
		w := x.wrap(rv, rt)
		if r, isOwned := w.(*ownedRef); isOwned && c.hasProp("view") {
			r.view, r.epoch = true, st.epoch
		}
		results = append(results, w)
		sv := post.FromVal(w, rt)
		if i < len(cnames) && cnames[i] != "" && cnames[i] != "_" {
			sc.vars[cnames[i]] = sv
		} else if n := sig.Results().At(i).Name(); n != "" && n != "_" {
			sc.vars[n] = sv
		}
		sc.vars[fmt.Sprintf("result%d", i)] = sv
		if len(rtypes) == 1 {
			sc.vars["result"] = sv
		}
	}
	for _, e := range c.C.Ensures {
		post.Pos = e.Pos
		st.assume(post.Bool(e.E), fmt.Sprintf("ensures of %s: %s", c.C.Key(), e.Text))
	}
	for _, b := range c.C.Behaviors {
		if len(b.Ghost) > 0 {
			continue // behaviours with ghost parameters are proof obligations of the callee only
		}
		var as []*smt.Term
		for _, a := range b.Assumes {
			evPre.Pos = a.Pos
			as = append(as, evPre.Bool(a.E))
		}
		for _, e := range b.Ensures {
			post.Pos = e.Pos
			st.assume(smt.Implies(smt.And(as...), post.Bool(e.E)), fmt.Sprintf("behavior %s of %s", b.Name, c.C.Key()))
		}
	}
	x.monitorCallPost(st, c, ci, args, in)
	switch len(results) {
	case 0:
		return nil
	case 1:
		return results[0]
	}
	return Tuple(results)
}

func indexOf(xs []string, s string) int {
	for i, v := range xs {
		if v == s {
			return i
		}
	}
	return -1
}

// mayAllocate: the contract says `mayalloc` or speaks about the allocation counter itself.
// Otherwise callers may assume that the counted allocations (make, string conversions) do not
// happen in the callee, and the callee's own verification checks exactly that at every return.
func mayAllocate(c *Contract) bool {
	if c.C.Mayalloc {
		return true
	}
	for _, e := range c.C.Ensures {
		if strings.Contains(e.Text, "allocated") {
			return true
		}
	}
	return false
}

// ---- builtins

func (x *exec) builtin(st *pstate, name string, cc *ssa.CallCommon, args []Val, argTypes []types.Type, in ssa.Instruction) Val {
	switch name {
	case "len", "cap":
		switch t := argTypes[0].Underlying().(type) {
		case *types.Slice:
			s := x.toTerm(args[0])
			if name == "len" {
				return SlLen(s)
			}
			return SlCap(s)
		case *types.Basic:
			return StrLen(x.toTerm(args[0]))
		case *types.Array:
			return bv64(t.Len())
		case *types.Pointer:
			return bv64(t.Elem().Underlying().(*types.Array).Len())
		case *types.Map:
			return x.mapLenVal(st, args[0], t)
		case *types.Chan:
			r := x.env.Fresh("chanlen", BV64)
			st.assume(smt.BVSge(r, bv64(0)), "chan len")
			return r
		}
	case "append":
		return x.appendOp(st, args, argTypes, in)
	case "copy":
		return x.copyOp(st, args, argTypes, in)
	case "min", "max":
		a, b := x.toTerm(args[0]), x.toTerm(args[1])
		if !isInteger(argTypes[0]) {
			unsupp("min/max on %s", argTypes[0])
		}
		c := intCmp(token.LSS, a, b, isSigned(argTypes[0]))
		if name == "max" {
			c = smt.Not(c)
		}
		return smt.Ite(c, a, b)
	case "clear":
		if dt, ok := argTypes[0].Underlying().(*types.Slice); ok {
			// every element of the slice becomes the zero value
			et := dt.Elem()
			d := x.toTerm(args[0])
			doff, n := SlOff(d), SlLen(d)
			if !x.c.C.Trusted {
				x.frameCheckRange(st, target{ref: SlRef(d), lo: doff, hi: smt.BVAdd(doff, n), elem: et}, in, ".clear")
			}
			oldArr := x.env.Backing(st.heap, et, SlRef(d))
			arr := x.env.Fresh("cleared", oldArr.Sort)
			qcount++
			k := smt.BVar("j!"+itoa(qcount), BV64)
			inside := smt.And(smt.BVUle(doff, k), smt.BVUlt(k, smt.BVAdd(doff, n)))
			st.assume(smt.Forall([]*smt.Term{k}, smt.Eq(smt.Select(arr, k),
				smt.Ite(inside, x.p.T.Zero(et), smt.Select(oldArr, k)))), "clear: content")
			x.env.SetBacking(st.heap, et, SlRef(d), arr)
			return nil
		}
	case "delete":
		x.mapDelete(st, args, argTypes, in)
		return nil
	case "close":
		x.chanClose(st, args, in)
		return nil
	case "print", "println":
		return nil
	}
	unsupp("builtin %s on %s", name, argTypes[0])
	return nil
}

func (x *exec) appendOp(st *pstate, args []Val, argTypes []types.Type, in ssa.Instruction) Val {
	st0 := argTypes[0].Underlying().(*types.Slice)
	et := st0.Elem()
	es := x.p.T.SortOf(et)
	s := x.toTerm(args[0])
	if len(args) == 1 {
		return s
	}
	// source elements: slice or string
	var srcArr, srcOff, n *smt.Term
	if isString(argTypes[1]) {
		e := x.toTerm(args[1])
		srcArr, srcOff, n = StrArr(e), StrOff(e), StrLen(e)
	} else {
		e := x.toTerm(args[1])
		srcArr, srcOff, n = x.env.Backing(st.heap, et, SlRef(e)), SlOff(e), SlLen(e)
	}
	off, ln, cp := SlOff(s), SlLen(s), SlCap(s)
	newLen := smt.BVAdd(ln, n)
	fits := smt.BVUle(newLen, cp)
	fresh := x.env.Alloc(st.State)
	oldArr := x.env.Backing(st.heap, et, SlRef(s))
	// frame: in-place writes go to the spare capacity of s
	if !x.c.C.Trusted {
		x.frameCheckRange(st, target{ref: SlRef(s), lo: smt.BVAdd(off, ln), hi: smt.BVAdd(off, newLen), elem: et, guard: smt.And(fits, smt.Neq(n, bv64(0)))}, in, ".append")
	}
	ref := smt.Ite(fits, SlRef(s), fresh)
	// base content: the old array when appending in place; otherwise an unknown array that agrees with the old one on [off, off+len)
	grown := x.env.Fresh("grown", smt.Array(BV64, es))
	qcount++
	j := smt.BVar("j!"+itoa(qcount), BV64)
	st.assume(smt.Forall([]*smt.Term{j}, smt.Implies(smt.And(smt.BVUle(off, j), smt.BVUlt(j, smt.BVAdd(off, ln))),
		smt.Eq(smt.Select(grown, j), smt.Select(oldArr, j)))), "append: reallocated array keeps the elements")
	base := smt.Ite(fits, oldArr, grown)
	var arr *smt.Term
	if n.IsLit() && n.Val.IsInt64() && n.Val.Int64() <= 16 {
		arr = base
		for i := int64(0); i < n.Val.Int64(); i++ {
			arr = smt.Store(arr, smt.BVAdd(smt.BVAdd(off, ln), bv64(i)), smt.Select(srcArr, smt.BVAdd(srcOff, bv64(i))))
		}
	} else {
		arr = x.env.Fresh("appended", smt.Array(BV64, es))
		qcount++
		k := smt.BVar("j!"+itoa(qcount), BV64)
		start := smt.BVAdd(off, ln)
		inNew := smt.And(smt.BVUle(start, k), smt.BVUlt(k, smt.BVAdd(start, n)))
		st.assume(smt.Forall([]*smt.Term{k}, smt.Eq(smt.Select(arr, k),
			smt.Ite(inNew, smt.Select(srcArr, smt.BVAdd(srcOff, smt.BVSub(k, start))), smt.Select(base, k)))), "append: content")
	}
	newCap := x.env.Fresh("newcap", BV64)
	st.assume(smt.And(smt.BVUle(newLen, newCap), smt.BVUle(newCap, maxLen)), "append: new capacity")
	st.assume(smt.BVUle(newLen, maxLen), "append: length within the address space")
	x.env.SetBacking(st.heap, et, ref, arr)
	// appending nothing to a nil slice yields nil
	res := MkSlice(ref, off, newLen, smt.Ite(fits, cp, newCap))
	return res
}

func (x *exec) copyOp(st *pstate, args []Val, argTypes []types.Type, in ssa.Instruction) Val {
	dt := argTypes[0].Underlying().(*types.Slice)
	et := dt.Elem()
	d := x.toTerm(args[0])
	var srcArr, srcOff, sn *smt.Term
	if isString(argTypes[1]) {
		e := x.toTerm(args[1])
		srcArr, srcOff, sn = StrArr(e), StrOff(e), StrLen(e)
	} else {
		e := x.toTerm(args[1])
		srcArr, srcOff, sn = x.env.Backing(st.heap, et, SlRef(e)), SlOff(e), SlLen(e)
	}
	n := smt.Ite(smt.BVUlt(SlLen(d), sn), SlLen(d), sn)
	doff := SlOff(d)
	if !x.c.C.Trusted {
		x.frameCheckRange(st, target{ref: SlRef(d), lo: doff, hi: smt.BVAdd(doff, n), elem: et}, in, ".copy")
	}
	oldArr := x.env.Backing(st.heap, et, SlRef(d))
	arr := x.env.Fresh("copied", oldArr.Sort)
	qcount++
	k := smt.BVar("j!"+itoa(qcount), BV64)
	inside := smt.And(smt.BVUle(doff, k), smt.BVUlt(k, smt.BVAdd(doff, n)))
	st.assume(smt.Forall([]*smt.Term{k}, smt.Eq(smt.Select(arr, k),
		smt.Ite(inside, smt.Select(srcArr, smt.BVAdd(srcOff, smt.BVSub(k, doff))), smt.Select(oldArr, k)))), "copy: content")
	x.env.SetBacking(st.heap, et, SlRef(d), arr)
	return n
}

// special handles functions modelled directly by govc.
func (x *exec) special(st *pstate, callee *ssa.Function, cc *ssa.CallCommon, args []Val, argTypes []types.Type, in ssa.Instruction) (Val, bool, bool) {
	key := FuncKey(callee)
	switch key {
	case "log.Panicf", "log.Panic", "log.Panicln", "log.Fatalf", "log.Fatal", "log.Fatalln":
		// like an explicit panic: the call must be unreachable
		x.emit(st, x.ord[in], "panic", smt.False, in.Pos(), "explicit "+key+" is unreachable")
		return nil, true, true
	case "fmt.Errorf", "errors.New":
		e := x.env.Fresh("errnew$", IfaceSort)
		st.assume(smt.Neq(IfTyp(e), smt.IntLit(0)), "a new error is not nil")
		// %w: the result wraps the argument in that position
		if key == "fmt.Errorf" {
			x.errorfWraps(st, cc, e)
		}
		x.p.Assumptions["fmt.Errorf/errors.New return a non-nil error distinct from every package-level error variable"] = true
		return e, true, false
	case "math.Float32bits", "math.Float32frombits", "math.Float64bits", "math.Float64frombits":
		x.p.Assumptions["float32/float64 values are modelled by their IEEE-754 bit patterns (no floating-point arithmetic is verified)"] = true
		return args[0], true, false
	}
	if r, ok, done := x.monitorSpecial(st, key, callee, cc, args, in); ok {
		return r, true, done
	}
	return nil, false, false
}

// errorfWraps: fmt.Errorf with a constant format containing %w wraps the matching argument.
func (x *exec) errorfWraps(st *pstate, cc *ssa.CallCommon, e *smt.Term) {
	if len(cc.Args) < 2 {
		return
	}
	fc, ok := cc.Args[0].(*ssa.Const)
	if !ok || fc.Value == nil {
		return
	}
	format := fc.Value.ExactString()
	if !strings.Contains(format, "%w") {
		return
	}
	// count verbs up to %w
	verb := 0
	wIdx := -1
	for i := 0; i+1 < len(format); i++ {
		if format[i] == '%' {
			if format[i+1] == '%' {
				i++
				continue
			}
			j := i + 1
			for j < len(format) && strings.ContainsRune("+-# 0123456789.", rune(format[j])) {
				j++
			}
			if j < len(format) && format[j] == 'w' {
				wIdx = verb
			}
			verb++
			i = j
		}
	}
	if wIdx < 0 {
		return
	}
	// varargs slice: find the store into element wIdx
	sl, ok := cc.Args[1].(*ssa.Slice)
	if !ok {
		return
	}
	al, ok := sl.X.(*ssa.Alloc)
	if !ok {
		return
	}
	for _, ref := range *al.Referrers() {
		ia, ok := ref.(*ssa.IndexAddr)
		if !ok {
			continue
		}
		c, ok := ia.Index.(*ssa.Const)
		if !ok || c.Int64() != int64(wIdx) {
			continue
		}
		for _, r2 := range *ia.Referrers() {
			if s, ok := r2.(*ssa.Store); ok {
				if v, ok := st.vals.get(s.Val); ok {
					if t, ok := v.(*smt.Term); ok && t.Sort == IfaceSort {
						x.p.D.AddFunc("wraps", smt.Bool, IfaceSort, IfaceSort)
						st.assume(smt.App("wraps", smt.Bool, e, t), "fmt.Errorf %w wraps its argument")
					}
				}
			}
		}
	}
}

func (x *exec) invoke(st *pstate, cc *ssa.CallCommon, args []Val, argTypes []types.Type, in ssa.Instruction) Val {
	// interface contract: pkg.(Iface).Method
	it := cc.Value.Type()
	name := "?"
	path := ""
	if n, ok := it.(*types.Named); ok {
		name = n.Obj().Name()
		if n.Obj().Pkg() != nil {
			path = n.Obj().Pkg().Path()
		}
	} else if tp, ok := it.(*types.TypeParam); ok {
		// method of a type parameter's constraint
		if n, ok := tp.Constraint().(*types.Named); ok {
			name = n.Obj().Name()
			if n.Obj().Pkg() != nil {
				path = n.Obj().Pkg().Path()
			}
		}
	}
	if name == "error" && cc.Method.Name() == "Error" {
		r := x.env.FreshVal("errstr", StrSort)
		st.assume(x.p.T.Inv(r, types.Typ[types.String], 0), "type invariant")
		return r
	}
	key := path + ".(" + name + ")." + cc.Method.Name()
	c, ok := x.p.extern[key]
	if !ok {
		unsupp("interface call %s without contract at %s", key, x.p.Fset.Position(in.Pos()))
	}
	return x.applyIfaceContract(st, c, cc, args, argTypes, in)
}

func (x *exec) applyIfaceContract(st *pstate, c *Contract, cc *ssa.CallCommon, args []Val, argTypes []types.Type, in ssa.Instruction) Val {
	// the contract's parameter names: receiver first, then the method's parameters
	sig := cc.Signature()
	names := []string{c.C.RecvName}
	if names[0] == "" {
		names[0] = "recv"
	}
	for i, p := range c.C.Params {
		n := p.Name
		if n == "" || n == "_" {
			n = fmt.Sprintf("arg%d", i)
		}
		names = append(names, n)
	}
	// type parameters: those of the function under verification, plus the interface's own parameters
	// bound to the type arguments of the instance the receiver has
	tparams := map[string]types.Type{}
	for k, v := range x.tparams {
		tparams[k] = v
	}
	it := cc.Value.Type()
	if tp, ok := it.(*types.TypeParam); ok {
		it = tp.Constraint()
	}
	if n, ok := it.(*types.Named); ok && n.TypeArgs().Len() > 0 {
		tps := n.Origin().TypeParams()
		for i := 0; i < tps.Len() && i < n.TypeArgs().Len(); i++ {
			tparams[tps.At(i).Obj().Name()] = n.TypeArgs().At(i)
		}
	}
	ci := callInfo{names: names, sig: sig, name: cc.Method.Name(), key: c.C.PkgPath + "." + c.C.Key(), tparams: tparams}
	return x.applyContractInfo(st, c, ci, args, argTypes, in)
}

func (x *exec) dynamicCall(st *pstate, cc *ssa.CallCommon, args []Val, argTypes []types.Type, in ssa.Instruction) Val {
	// a call through a function value whose target is unknown: it may do anything to the heap.
	// Under a monitor it must not happen with the lock held (it could block or re-enter).
	if x.monitor != nil && st.held["mu"] {
		x.emit(st, "nolock."+x.ord[in], "monitor", smt.False, in.Pos(), "call through a function value while holding the monitor lock")
	}
	cur := x.env.Next(st.heap)
	x.env.havocAll(st.heap)
	nv := x.env.Fresh("next$dyncall", smt.Int)
	st.heap["next"] = nv
	st.assume(smt.IGe(nv, cur), "allocation only grows")
	x.p.Assumptions["calls through function values (callbacks) have arbitrary effects on the heap and return normally"] = true
	sig := cc.Signature()
	var results []Val
	for i := 0; i < sig.Results().Len(); i++ {
		rt := sig.Results().At(i).Type()
		rv := x.env.FreshVal("dyncall$ret", x.p.T.SortOf(rt))
		st.assume(x.p.T.Inv(rv, rt, 0), "type invariant of a callback result")
		results = append(results, x.wrap(rv, rt))
	}
	switch len(results) {
	case 0:
		return nil
	case 1:
		return results[0]
	}
	return Tuple(results)
}
