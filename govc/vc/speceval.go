package vc

import (
	"fmt"
	"go/constant"
	"go/token"
	"go/types"
	"math/big"
	"strings"

	"govc/smt"
	"govc/spec"
)

// SV is a value of the specification language.
type SV struct {
	T     types.Type // nil: untyped integer constant
	Term  *smt.Term
	Arr   *smt.Term // slices: content snapshot (Array BV64 elem); nil = read lazily from the context heap
	Loc   *Loc      // pointers
	Const *big.Int
	// untyped conditional between two constants: c ? UA : UB
	UCond  *smt.Term
	UA, UB *big.Int
	// Interior: the value is a (never nil) pointer into a node of an owned structure; all a
	// specification can do with it is compare it with nil and read what it points to (this term)
	Interior *smt.Term
	// exactly modelled local map: presence array (K -> Bool) and value array (K -> V)
	MapP, MapV *smt.Term
}

type scope struct {
	vars   map[string]SV
	parent *scope
	bound  bool // layer of quantifier / let variables (kept when old() switches to the entry scope)
}

func (s *scope) lookup(n string) (SV, bool) {
	for c := s; c != nil; c = c.parent {
		if v, ok := c.vars[n]; ok {
			return v, true
		}
	}
	return SV{}, false
}

func (s *scope) push() *scope { return &scope{vars: map[string]SV{}, parent: s} }

func (s *scope) pushBound() *scope { return &scope{vars: map[string]SV{}, parent: s, bound: true} }

// rebase puts the bound-variable layers of s on top of base.
func (s *scope) rebase(base *scope) *scope {
	var layers []*scope
	for c := s; c != nil; c = c.parent {
		if c.bound {
			layers = append(layers, c)
		}
	}
	out := base
	for i := len(layers) - 1; i >= 0; i-- {
		out = &scope{vars: layers[i].vars, parent: out, bound: true}
	}
	return out
}

type specErr struct{ msg string }

type Eval struct {
	P       *Prog
	Env     *Env
	Pkg     *types.Package
	Heap    map[string]*smt.Term
	Old     map[string]*smt.Term
	Scope   *scope
	TParams map[string]types.Type
	OldScope *scope
	Pos     spec.Pos
	depth   int
	// Side collects definitional hypotheses produced during evaluation.
	Side *[]*smt.Term
	// Facts receives type invariants of values the specification reads from the heap.
	Facts func(*smt.Term)
	// Owned folds a handle of an owned structure into its tree value.
	Owned func(*ownedRef) *smt.Term
	OwnedField func(*ownedFieldLoc) *smt.Term
	LocalMap func(*localMap) (present, vals *smt.Term)
	inInv  bool // evaluating a value invariant (no nested invariant facts)
	unfold int // current unfolding depth of recursive specification functions
	ufSeen map[*smt.Term]int
}

func (e *Eval) fail(f string, a ...any) {
	panic(specErr{fmt.Sprintf("%s: %s", e.Pos, fmt.Sprintf(f, a...))})
}

func (e *Eval) with(heap map[string]*smt.Term) *Eval {
	n := *e
	n.Heap = heap
	return &n
}

func (e *Eval) inScope(s *scope) *Eval {
	n := *e
	n.Scope = s
	return &n
}

// ---- types

func (e *Eval) ResolveType(te *spec.TypeExpr) types.Type {
	switch te.Kind {
	case "ptr":
		return types.NewPointer(e.ResolveType(te.Elem))
	case "slice":
		return types.NewSlice(e.ResolveType(te.Elem))
	case "array":
		var n int64
		fmt.Sscan(te.Len, &n)
		return types.NewArray(e.ResolveType(te.Elem), n)
	case "map":
		return types.NewMap(e.ResolveType(te.Key), e.ResolveType(te.Elem))
	}
	if te.Pkg == "unsafe" && te.Name == "Pointer" {
		return types.Typ[types.UnsafePointer] // the type of ref(x): the identity of an object or backing array
	}
	if te.Pkg != "" {
		p := e.P.findImport(e.Pkg, te.Pkg)
		if p == nil {
			e.fail("unknown package %s", te.Pkg)
		}
		o := p.Scope().Lookup(te.Name)
		if o == nil {
			e.fail("unknown type %s.%s", te.Pkg, te.Name)
		}
		return o.Type()
	}
	if t, ok := e.TParams[te.Name]; ok {
		return t
	}
	if te.Name == "byte" {
		return types.Typ[types.Uint8]
	}
	if te.Name == "rune" {
		return types.Typ[types.Int32]
	}
	if o := types.Universe.Lookup(te.Name); o != nil {
		if tn, ok := o.(*types.TypeName); ok {
			return tn.Type()
		}
	}
	if e.Pkg != nil {
		if o := e.Pkg.Scope().Lookup(te.Name); o != nil {
			if tn, ok := o.(*types.TypeName); ok {
				t := tn.Type()
				return e.instantiate(t, te)
			}
		}
	}
	e.fail("unknown type %s", te.Name)
	return nil
}

// instantiate applies the type arguments written in the specification to a generic named type.
// Arguments that are the type's own parameters (TreeNode[T] inside a generic context that has no
// binding for T) leave the type uninstantiated.
func (e *Eval) instantiate(t types.Type, te *spec.TypeExpr) types.Type {
	n, ok := t.(*types.Named)
	if !ok || len(te.Args) == 0 || n.TypeParams() == nil || n.TypeParams().Len() != len(te.Args) {
		return t
	}
	var targs []types.Type
	for _, a := range te.Args {
		var at types.Type
		func() {
			defer func() {
				if r := recover(); r != nil {
					if _, isSpec := r.(specErr); !isSpec {
						panic(r)
					}
				}
			}()
			at = e.ResolveType(a)
		}()
		if at == nil {
			return t
		}
		targs = append(targs, at)
	}
	inst, err := types.Instantiate(nil, n, targs, false)
	if err != nil {
		return t
	}
	return inst
}

// inferTypeArgs binds the type parameters mentioned in a parameter type of a generic specification
// function from the type of the actual argument (has(t.root, k) in a context where T is not a name).
func (e *Eval) inferTypeArgs(te *spec.TypeExpr, actual types.Type, tp map[string]types.Type) {
	if te == nil || actual == nil {
		return
	}
	switch te.Kind {
	case "ptr":
		if pt, ok := actual.Underlying().(*types.Pointer); ok {
			e.inferTypeArgs(te.Elem, pt.Elem(), tp)
		}
	case "slice":
		if st, ok := actual.Underlying().(*types.Slice); ok {
			e.inferTypeArgs(te.Elem, st.Elem(), tp)
		}
	case "array":
		if at, ok := actual.Underlying().(*types.Array); ok {
			e.inferTypeArgs(te.Elem, at.Elem(), tp)
		}
	case "name":
		if te.Pkg != "" {
			return
		}
		if len(te.Args) == 0 {
			if _, bound := tp[te.Name]; bound {
				return
			}
			if types.Universe.Lookup(te.Name) != nil || te.Name == "byte" || te.Name == "rune" {
				return
			}
			if e.Pkg != nil && e.Pkg.Scope().Lookup(te.Name) != nil {
				return
			}
			tp[te.Name] = actual
			return
		}
		if n, ok := actual.(*types.Named); ok {
			if n.TypeArgs().Len() == len(te.Args) {
				for i, a := range te.Args {
					e.inferTypeArgs(a, n.TypeArgs().At(i), tp)
				}
			} else if n.TypeParams() != nil && n.TypeParams().Len() == len(te.Args) {
				for i, a := range te.Args {
					e.inferTypeArgs(a, n.TypeParams().At(i), tp)
				}
			}
		}
	}
}

// ---- conversion between executor values and spec values

func (e *Eval) FromVal(v Val, t types.Type) SV {
	switch x := v.(type) {
	case *Loc:
		return SV{T: t, Loc: x}
	case *smt.Term:
		if pt, ok := t.Underlying().(*types.Pointer); ok {
			if e.P.T.OwnedOf(t) != nil {
				return SV{T: t, Term: x}
			}
			return SV{T: t, Loc: &Loc{Kind: LRoot, Ref: x, Root: pt.Elem()}, Term: x}
		}
		return SV{T: t, Term: x}
	case *ownedRef:
		if e.Owned == nil {
			e.fail("owned pointer used where no execution state is available")
		}
		return SV{T: t, Term: e.Owned(x)}
	case *localMap:
		if e.LocalMap == nil {
			e.fail("local map used where no execution state is available")
		}
		p, vs := e.LocalMap(x)
		return SV{T: t, MapP: p, MapV: vs}
	case *ownedFieldLoc:
		if e.OwnedField == nil {
			e.fail("pointer into an owned node used where no execution state is available")
		}
		return SV{T: t, Interior: e.OwnedField(x)}
	}
	e.fail("cannot use value %T in a specification", v)
	return SV{}
}

// loaded wraps a value read from the heap by a specification and records its type invariant
// (slice/string headers within the address-space bound) as a fact of the current state.
func (e *Eval) loaded(t *smt.Term, ty types.Type) SV {
	if e.Facts != nil && t.Closed() {
		switch ty.Underlying().(type) {
		case *types.Slice, *types.Pointer, *types.Map, *types.Chan, *types.Struct:
			e.Facts(e.P.T.Inv(t, ty, 0))
		case *types.Basic:
			if isString(ty) {
				e.Facts(e.P.T.Inv(t, ty, 0))
			}
		}
	}
	return e.FromVal(t, ty)
}

func (e *Eval) term(v SV) *smt.Term {
	if v.Term != nil {
		return v.Term
	}
	if v.Loc != nil {
		return locTerm(v.Loc)
	}
	if v.Const != nil {
		return smt.BVLit(v.Const, 64)
	}
	e.fail("value has no term")
	return nil
}

func (e *Eval) arr(v SV) *smt.Term {
	if v.Arr != nil {
		return v.Arr
	}
	st, ok := v.T.Underlying().(*types.Slice)
	if !ok {
		e.fail("not a slice: %s", v.T)
	}
	return e.Env.Backing(e.Heap, st.Elem(), SlRef(v.Term))
}

// coerce an untyped constant to type t.
func (e *Eval) coerce(v SV, t types.Type) SV {
	if v.T == nil && v.Const == nil && v.UCond != nil {
		if t == nil {
			t = types.Typ[types.Int]
		}
		if !isInteger(t) {
			e.fail("constant used as %s", t)
		}
		w := intWidth(t)
		return SV{T: t, Term: smt.Ite(v.UCond, smt.BVLit(v.UA, w), smt.BVLit(v.UB, w))}
	}
	if v.T != nil || v.Const == nil {
		return v
	}
	if t == nil {
		t = types.Typ[types.Int]
	}
	if !isInteger(t) {
		e.fail("constant %s used as %s", v.Const, t)
	}
	return SV{T: t, Term: smt.BVLit(v.Const, intWidth(t))}
}

func (e *Eval) Bool(x spec.Expr) *smt.Term {
	v := e.Eval(x)
	if v.T == nil || !isBool(v.T) {
		e.fail("boolean expected, got %v", v.T)
	}
	return v.Term
}

var tBool = types.Typ[types.Bool]
var tInt = types.Typ[types.Int]

func boolSV(t *smt.Term) SV { return SV{T: tBool, Term: t} }

// ---- evaluation

func (e *Eval) Eval(x spec.Expr) SV {
	e.depth++
	defer func() { e.depth-- }()
	if e.depth > 200 {
		e.fail("specification recursion too deep")
	}
	switch x := x.(type) {
	case *spec.IntLit:
		n := new(big.Int)
		if _, ok := n.SetString(x.Text, 0); !ok {
			e.fail("bad integer %q", x.Text)
		}
		return SV{Const: n}
	case *spec.CharLit:
		return SV{Const: big.NewInt(int64(x.Val))}
	case *spec.StrLit:
		return SV{T: types.Typ[types.String], Term: strConst(x.Val)}
	case *spec.Ident:
		return e.ident(x.Name)
	case *spec.Unary:
		return e.unary(x)
	case *spec.Binary:
		return e.binary(x)
	case *spec.Cond:
		c := e.Bool(x.C)
		a, b := e.Eval(x.A), e.Eval(x.B)
		a, b = e.unify(a, b)
		if a.T != nil && !types.Identical(a.T, b.T) && a.Term.Sort != b.Term.Sort {
			e.fail("?: branches of different types %s / %s", a.T, b.T)
		}
		if a.T == nil && b.T == nil && a.Const != nil && b.Const != nil {
			return SV{UCond: c, UA: a.Const, UB: b.Const}
		}
		if a.T == nil {
			a, b = e.coerce(a, tInt), e.coerce(b, tInt)
		}
		return SV{T: a.T, Term: smt.Ite(c, e.term(a), e.term(b))}
	case *spec.Quant:
		if r, ok := e.unrollQuant(x); ok {
			return r
		}
		sc := e.Scope.pushBound()
		var vars []*smt.Term
		var guards []*smt.Term
		for _, p := range x.Vars {
			t := e.ResolveType(p.Type)
			qcount++
			bv := smt.BVar(fmt.Sprintf("%s!q%d", p.Name, qcount), e.P.T.SortOf(t))
			vars = append(vars, bv)
			sc.vars[p.Name] = e.FromVal(bv, t)
			guards = append(guards, e.P.T.Inv(bv, t, 0))
		}
		body := e.inScope(sc).Bool(x.Body)
		if x.Forall {
			return boolSV(smt.Forall(vars, smt.Implies(smt.And(guards...), body)))
		}
		return boolSV(smt.Exists(vars, smt.And(append(guards, body)...)))
	case *spec.Let:
		sc := e.Scope.pushBound()
		v := e.Eval(x.Val)
		v = e.coerce(v, tInt)
		sc.vars[x.Name] = v
		return e.inScope(sc).Eval(x.Body)
	case *spec.Call:
		return e.call(x)
	case *spec.Index:
		return e.index(x)
	case *spec.SliceE:
		return e.slice(x)
	case *spec.Selector:
		return e.selector(x)
	case *spec.TypeAssert:
		v := e.Eval(x.X)
		if v.T == nil || e.P.T.SortOf(v.T) != IfaceSort {
			e.fail("type assertion on a non-interface value")
		}
		t := e.ResolveType(x.T)
		return e.FromVal(e.P.unbox(v.Term, t), t)
	case *spec.TypeE:
		e.fail("type used as value")
	}
	e.fail("unsupported specification expression %T", x)
	return SV{}
}

// unrollQuant expands `forall t T :: lo <= t && t < hi ==> P` (or exists ... && P) when lo and hi are
// constants at most 64 apart: a conjunction (disjunction) of instances, no quantifier for the solver.
func (e *Eval) unrollQuant(x *spec.Quant) (SV, bool) {
	if len(x.Vars) != 1 {
		return SV{}, false
	}
	var guard, body spec.Expr
	if b, ok := x.Body.(*spec.Binary); ok && ((x.Forall && b.Op == "==>") || (!x.Forall && b.Op == "&&")) {
		guard, body = b.X, b.Y
	} else {
		return SV{}, false
	}
	g, ok := guard.(*spec.Binary)
	if !ok || g.Op != "&&" {
		return SV{}, false
	}
	lo, ok1 := g.X.(*spec.Binary)
	hi, ok2 := g.Y.(*spec.Binary)
	if !ok1 || !ok2 || lo.Op != "<=" || hi.Op != "<" {
		return SV{}, false
	}
	name := x.Vars[0].Name
	if id, ok := lo.Y.(*spec.Ident); !ok || id.Name != name {
		return SV{}, false
	}
	if id, ok := hi.X.(*spec.Ident); !ok || id.Name != name {
		return SV{}, false
	}
	constOf := func(ex spec.Expr) (*big.Int, bool) {
		switch ex.(type) {
		case *spec.IntLit, *spec.CharLit:
		default:
			return nil, false
		}
		v := e.Eval(ex)
		if v.Const == nil {
			return nil, false
		}
		return v.Const, true
	}
	l, okl := constOf(lo.X)
	h, okh := constOf(hi.Y)
	if !okl || !okh {
		return SV{}, false
	}
	n := new(big.Int).Sub(h, l)
	if !n.IsInt64() || n.Int64() > 64 {
		return SV{}, false
	}
	t := e.ResolveType(x.Vars[0].Type)
	if !isInteger(t) {
		return SV{}, false
	}
	var parts []*smt.Term
	for i := int64(0); i < n.Int64(); i++ {
		sc := e.Scope.pushBound()
		v := new(big.Int).Add(l, big.NewInt(i))
		sc.vars[name] = SV{T: t, Term: smt.BVLit(v, intWidth(t))}
		parts = append(parts, e.inScope(sc).Bool(body))
	}
	if x.Forall {
		return boolSV(smt.And(parts...)), true
	}
	return boolSV(smt.Or(parts...)), true
}

func (e *Eval) ident(name string) SV {
	if v, ok := e.Scope.lookup(name); ok {
		return v
	}
	switch name {
	case "true":
		return boolSV(smt.True)
	case "false":
		return boolSV(smt.False)
	case "nil":
		return SV{T: types.Typ[types.UntypedNil]}
	case "allocated":
		return SV{T: tInt, Term: e.Env.heapVar(e.Heap, "allocated", BV64)}
	}
	if e.Pkg != nil {
		if o := e.Pkg.Scope().Lookup(name); o != nil {
			return e.object(o)
		}
	}
	e.fail("unknown identifier %q", name)
	return SV{}
}

func (e *Eval) object(o types.Object) SV {
	switch o := o.(type) {
	case *types.Const:
		return e.constVal(o.Val(), o.Type())
	case *types.Var:
		return e.P.globalValue(e.Env, e.Heap, o)
	}
	e.fail("cannot use %s in a specification", o)
	return SV{}
}

func (e *Eval) constVal(c constant.Value, t types.Type) SV {
	switch c.Kind() {
	case constant.Int:
		n, _ := new(big.Int).SetString(c.ExactString(), 10)
		if b, ok := t.Underlying().(*types.Basic); ok && b.Info()&types.IsUntyped != 0 {
			return SV{Const: n}
		}
		return SV{T: t, Term: smt.BVLit(n, intWidth(t))}
	case constant.Bool:
		return boolSV(smt.BoolLit(constant.BoolVal(c)))
	case constant.String:
		return SV{T: types.Typ[types.String], Term: strConst(constant.StringVal(c))}
	}
	e.fail("unsupported constant kind %v", c.Kind())
	return SV{}
}

func (e *Eval) unify(a, b SV) (SV, SV) {
	if a.T == nil && b.T != nil {
		a = e.coerceNilOrConst(a, b.T)
	} else if b.T == nil && a.T != nil {
		b = e.coerceNilOrConst(b, a.T)
	}
	if a.T != nil && b.T != nil {
		if isUntypedNil(a.T) && !isUntypedNil(b.T) {
			a = e.nilOf(b.T)
		} else if isUntypedNil(b.T) && !isUntypedNil(a.T) {
			b = e.nilOf(a.T)
		}
	}
	return a, b
}

func isUntypedNil(t types.Type) bool {
	b, ok := t.(*types.Basic)
	return ok && b.Kind() == types.UntypedNil
}

func (e *Eval) coerceNilOrConst(v SV, t types.Type) SV {
	if isUntypedNil(t) {
		return v
	}
	return e.coerce(v, t)
}

func (e *Eval) nilOf(t types.Type) SV {
	switch t.Underlying().(type) {
	case *types.Pointer:
		pt := t.Underlying().(*types.Pointer)
		if oi := e.P.T.OwnedOf(t); oi != nil {
			return SV{T: t, Term: oi.NilTerm()}
		}
		return SV{T: t, Term: smt.IntLit(0), Loc: &Loc{Kind: LRoot, Ref: smt.IntLit(0), Root: pt.Elem()}}
	case *types.Slice:
		return SV{T: t, Term: NilSlice}
	case *types.Interface:
		return SV{T: t, Term: NilIface}
	case *types.Map, *types.Chan, *types.Signature:
		return SV{T: t, Term: smt.IntLit(0)}
	}
	e.fail("nil of type %s", t)
	return SV{}
}

func (e *Eval) unary(x *spec.Unary) SV {
	v := e.Eval(x.X)
	switch x.Op {
	case "!":
		if v.T == nil || !isBool(v.T) {
			e.fail("! on non-bool")
		}
		return boolSV(smt.Not(v.Term))
	case "-":
		if v.T == nil {
			return SV{Const: new(big.Int).Neg(v.Const)}
		}
		return SV{T: v.T, Term: smt.BVNeg(v.Term)}
	case "+":
		return v
	case "&":
		if v.Loc == nil || v.T == nil {
			e.fail("& of a value that has no location")
		}
		return SV{T: types.NewPointer(v.T), Loc: v.Loc}
	case "^":
		if v.T == nil {
			return SV{Const: new(big.Int).Not(v.Const)}
		}
		return SV{T: v.T, Term: smt.BVNot(v.Term)}
	case "*":
		if v.Interior != nil {
			pt := v.T.Underlying().(*types.Pointer)
			return e.FromVal(v.Interior, pt.Elem())
		}
		if v.Loc == nil {
			if v.T != nil {
				if pt, ok := v.T.Underlying().(*types.Pointer); ok && v.Term != nil {
					l := &Loc{Kind: LRoot, Ref: v.Term, Root: pt.Elem()}
					return SV{T: pt.Elem(), Term: e.Env.Load(e.Heap, l)}
				}
			}
			e.fail("dereference of non-pointer")
		}
		et := v.Loc.Type()
		return e.loaded(e.Env.Load(e.Heap, v.Loc), et)
	}
	e.fail("unsupported unary %s", x.Op)
	return SV{}
}

var binTok = map[string]token.Token{"+": token.ADD, "-": token.SUB, "*": token.MUL, "/": token.QUO, "%": token.REM,
	"&": token.AND, "|": token.OR, "^": token.XOR, "&^": token.AND_NOT, "<<": token.SHL, ">>": token.SHR,
	"==": token.EQL, "!=": token.NEQ, "<": token.LSS, "<=": token.LEQ, ">": token.GTR, ">=": token.GEQ}

func constBin(op string, a, b *big.Int) *big.Int {
	r := new(big.Int)
	switch op {
	case "+":
		return r.Add(a, b)
	case "-":
		return r.Sub(a, b)
	case "*":
		return r.Mul(a, b)
	case "/":
		if b.Sign() == 0 {
			return nil
		}
		return r.Quo(a, b)
	case "%":
		if b.Sign() == 0 {
			return nil
		}
		return r.Rem(a, b)
	case "&":
		return r.And(a, b)
	case "|":
		return r.Or(a, b)
	case "^":
		return r.Xor(a, b)
	case "<<":
		return r.Lsh(a, uint(b.Uint64()))
	case ">>":
		return r.Rsh(a, uint(b.Uint64()))
	}
	return nil
}

func (e *Eval) binary(x *spec.Binary) SV {
	switch x.Op {
	case "&&":
		return boolSV(smt.And(e.Bool(x.X), e.Bool(x.Y)))
	case "||":
		return boolSV(smt.Or(e.Bool(x.X), e.Bool(x.Y)))
	case "==>":
		return boolSV(smt.Implies(e.Bool(x.X), e.Bool(x.Y)))
	case "<==>":
		return boolSV(smt.Iff(e.Bool(x.X), e.Bool(x.Y)))
	}
	a, b := e.Eval(x.X), e.Eval(x.Y)
	tk := binTok[x.Op]
	if x.Op == "<<" || x.Op == ">>" {
		if a.T == nil && b.T == nil {
			return SV{Const: constBin(x.Op, a.Const, b.Const)}
		}
		a = e.coerce(a, tInt)
		b = e.coerce(b, types.Typ[types.Uint])
		return SV{T: a.T, Term: intBinOp(tk, a.Term, b.Term, isSigned(a.T))}
	}
	if a.T == nil && b.T == nil && a.Const != nil && b.Const != nil {
		switch x.Op {
		case "==", "!=", "<", "<=", ">", ">=":
			c := a.Const.Cmp(b.Const)
			r := map[string]bool{"==": c == 0, "!=": c != 0, "<": c < 0, "<=": c <= 0, ">": c > 0, ">=": c >= 0}[x.Op]
			return boolSV(smt.BoolLit(r))
		}
		r := constBin(x.Op, a.Const, b.Const)
		if r == nil {
			e.fail("bad constant operation")
		}
		return SV{Const: r}
	}
	a, b = e.unify(a, b)
	if a.T == nil && b.T == nil {
		a, b = e.coerce(a, tInt), e.coerce(b, tInt)
	}
	switch x.Op {
	case "==", "!=":
		eq := e.equal(a, b)
		if x.Op == "!=" {
			eq = smt.Not(eq)
		}
		return boolSV(eq)
	case "<", "<=", ">", ">=":
		if !isInteger(a.T) || !isInteger(b.T) {
			e.fail("comparison of non-integers %s %s", a.T, b.T)
		}
		e.sameWidth(a, b, x.Op)
		return boolSV(intCmp(tk, a.Term, b.Term, isSigned(a.T)))
	}
	if isString(a.T) && x.Op == "+" {
		e.fail("string concatenation is not supported in specifications")
	}
	if !isInteger(a.T) || !isInteger(b.T) {
		e.fail("arithmetic on non-integers: %s %s %s", a.T, x.Op, b.T)
	}
	e.sameWidth(a, b, x.Op)
	return SV{T: a.T, Term: intBinOp(tk, a.Term, b.Term, isSigned(a.T))}
}

func (e *Eval) sameWidth(a, b SV, op string) {
	if a.Term.Sort != b.Term.Sort || isSigned(a.T) != isSigned(b.T) {
		e.fail("mismatched integer types %s %s %s", a.T, op, b.T)
	}
}

func (e *Eval) equal(a, b SV) *smt.Term {
	if a.T == nil || b.T == nil {
		e.fail("cannot compare untyped values")
	}
	switch a.T.Underlying().(type) {
	case *types.Slice:
		if _, ok := b.T.Underlying().(*types.Slice); !ok {
			e.fail("slice compared with %s", b.T)
		}
		// nil comparison is header comparison
		if b.Term == NilSlice || a.Term == NilSlice {
			return smt.Eq(SlRef(a.Term), SlRef(b.Term))
		}
		return smt.And(smt.Eq(SlLen(a.Term), SlLen(b.Term)),
			seqEq(e.arr(a), SlOff(a.Term), e.arr(b), SlOff(b.Term), SlLen(a.Term)))
	case *types.Pointer:
		return e.ptrEq(a, b)
	}
	if isString(a.T) {
		return strEq(a.Term, b.Term)
	}
	ta, tb := e.term(a), e.term(b)
	if ta.Sort != tb.Sort {
		e.fail("comparison of different sorts: %s / %s", a.T, b.T)
	}
	return smt.Eq(ta, tb)
}

func (e *Eval) ptrEq(a, b SV) *smt.Term {
	la, lb := a.Loc, b.Loc
	if a.Interior != nil || b.Interior != nil {
		other := b
		if b.Interior != nil {
			other = a
		}
		if other.Interior == nil && other.Loc != nil && other.Loc.Kind == LRoot && len(other.Loc.Path) == 0 && other.Loc.Ref.IsLit() && other.Loc.Ref.Val.Sign() == 0 {
			return smt.False // a pointer into a node is never nil
		}
		e.fail("a pointer into an owned node can only be compared with nil")
	}
	if oi := e.P.T.OwnedOf(a.T); oi != nil {
		// owned pointers are tree values; comparison with nil is a constructor test
		ta, tb := e.term(a), e.term(b)
		if tb.Op == "ctor" && tb.Name == oi.Nil.Name {
			return oi.IsNil(ta)
		}
		if ta.Op == "ctor" && ta.Name == oi.Nil.Name {
			return oi.IsNil(tb)
		}
		return smt.Eq(ta, tb)
	}
	if la == nil || lb == nil {
		return smt.Eq(e.term(a), e.term(b))
	}
	if la.Kind == LRoot && lb.Kind == LRoot && len(la.Path) == 0 && len(lb.Path) == 0 {
		return smt.Eq(la.Ref, lb.Ref)
	}
	if la.Kind == lb.Kind && len(la.Path) == 0 && len(lb.Path) == 0 && la.Kind == LElem {
		return smt.And(smt.Eq(la.Ref, lb.Ref), smt.Eq(la.Idx, lb.Idx))
	}
	// an interior pointer is never nil
	if lb.Kind == LRoot && len(lb.Path) == 0 && lb.Ref.IsLit() && lb.Ref.Val.Sign() == 0 {
		if la.Kind == LRoot {
			return smt.Eq(la.Ref, lb.Ref)
		}
		return smt.False
	}
	e.fail("unsupported pointer comparison")
	return nil
}

func (e *Eval) index(x *spec.Index) SV {
	v := e.Eval(x.X)
	i := e.coerce(e.Eval(x.I), tInt)
	if v.T == nil {
		e.fail("index of untyped")
	}
	idx := i.Term
	if idx.Sort.Kind == smt.KBV && idx.Sort.W != 64 {
		idx = smt.Resize(idx, 64, isSigned(i.T))
	}
	switch u := v.T.Underlying().(type) {
	case *types.Slice:
		el := smt.Select(e.arr(v), smt.BVAdd(SlOff(v.Term), idx))
		e.elemInvFact(el, u.Elem())
		return e.FromVal(el, u.Elem())
	case *types.Array:
		return e.FromVal(smt.Select(v.Term, idx), u.Elem())
	case *types.Basic:
		if isString(v.T) {
			return SV{T: types.Typ[types.Uint8], Term: smt.Select(StrArr(v.Term), smt.BVAdd(StrOff(v.Term), idx))}
		}
	case *types.Pointer:
		if at, ok := u.Elem().Underlying().(*types.Array); ok && v.Loc != nil {
			if v.Loc.Kind == LArr {
				return e.FromVal(smt.Select(e.Env.Backing(e.Heap, at.Elem(), v.Loc.Ref), smt.BVAdd(v.Loc.Idx, idx)), at.Elem())
			}
			l := v.Loc.extend(pathElem{Field: -1, Idx: idx, T: at.Elem()})
			return e.FromVal(e.Env.Load(e.Heap, l), at.Elem())
		}
	case *types.Map:
		e.fail("map index: use mapget/maphas")
	}
	e.fail("cannot index %s", v.T)
	return SV{}
}

// elemInvFact: a slice element read by a specification satisfies the value invariant of its type
// (see typeinv.go); recorded as a fact for closed terms.
func (e *Eval) elemInvFact(el *smt.Term, t types.Type) {
	if e.Facts == nil || !el.Closed() || e.inInv {
		return
	}
	n, ok := e.P.valueInvOf(t)
	if !ok {
		return
	}
	ti := e.P.TypeInvs[n.Obj().Pkg().Path()+"."+n.Obj().Name()]
	sc := &scope{vars: map[string]SV{}}
	ie := &Eval{P: e.P, Env: e.Env, Pkg: n.Obj().Pkg(), Heap: e.Heap, Old: e.Old, Scope: sc, TParams: e.TParams, Pos: ti.E.Pos,
		Facts: e.Facts, Owned: e.Owned, OwnedField: e.OwnedField, LocalMap: e.LocalMap, ufSeen: e.ufSeen, unfold: e.unfold, inInv: true}
	sc.vars[ti.Recv] = ie.FromVal(el, t)
	e.Facts(ie.Bool(ti.E.E))
}

func (e *Eval) slice(x *spec.SliceE) SV {
	v := e.Eval(x.X)
	var lo, hi *smt.Term
	if x.Lo != nil {
		lo = e.as64(e.Eval(x.Lo))
	} else {
		lo = bv64(0)
	}
	switch v.T.Underlying().(type) {
	case *types.Slice:
		if x.Hi != nil {
			hi = e.as64(e.Eval(x.Hi))
		} else {
			hi = SlLen(v.Term)
		}
		h := MkSlice(SlRef(v.Term), smt.BVAdd(SlOff(v.Term), lo), smt.BVSub(hi, lo), smt.BVSub(SlCap(v.Term), lo))
		return SV{T: v.T, Term: h, Arr: e.arr(v)}
	case *types.Basic:
		if isString(v.T) {
			if x.Hi != nil {
				hi = e.as64(e.Eval(x.Hi))
			} else {
				hi = StrLen(v.Term)
			}
			return SV{T: v.T, Term: MkStr(StrArr(v.Term), smt.BVAdd(StrOff(v.Term), lo), smt.BVSub(hi, lo))}
		}
	}
	e.fail("cannot slice %s", v.T)
	return SV{}
}

func (e *Eval) as64(v SV) *smt.Term {
	v = e.coerce(v, tInt)
	if !isInteger(v.T) {
		e.fail("integer expected")
	}
	return smt.Resize(v.Term, 64, isSigned(v.T))
}

func (e *Eval) selector(x *spec.Selector) SV {
	// package-qualified name?
	if id, ok := x.X.(*spec.Ident); ok {
		if _, bound := e.Scope.lookup(id.Name); !bound {
			if p := e.P.findImport(e.Pkg, id.Name); p != nil {
				o := p.Scope().Lookup(x.Name)
				if o == nil {
					e.fail("unknown %s.%s", id.Name, x.Name)
				}
				return e.object(o)
			}
		}
	}
	v := e.Eval(x.X)
	if v.T == nil {
		e.fail("selector on untyped")
	}
	t := v.T
	if pt, ok := t.Underlying().(*types.Pointer); ok {
		st, ok := pt.Elem().Underlying().(*types.Struct)
		if !ok {
			e.fail("selector on pointer to non-struct %s", pt.Elem())
		}
		fi, ft := fieldIndex(st, x.Name)
		if fi < 0 {
			e.fail("no field %s in %s", x.Name, pt.Elem())
		}
		if oi := e.P.T.OwnedOf(t); oi != nil {
			// field of the root node of a tree value (unspecified on nil, like any partial function)
			return e.FromVal(oi.Field(fi, e.term(v)), ft)
		}
		if v.Loc == nil {
			e.fail("pointer without location")
		}
		l := e.Env.Field(v.Loc, fi, ft)
		if isGoStruct(ft) && l.Kind == LRoot && len(l.Path) == 0 {
			// an embedded object: the selector denotes the object itself (its fields are read through it)
			return SV{T: ft, Term: e.Env.Load(e.Heap, l), Loc: l}
		}
		return e.loaded(e.Env.Load(e.Heap, l), ft)
	}
	if st, ok := t.Underlying().(*types.Struct); ok {
		fi, ft := fieldIndex(st, x.Name)
		if fi < 0 {
			e.fail("no field %s in %s", x.Name, t)
		}
		si := e.P.T.StructOf(t)
		return e.FromVal(smt.Acc(si.Sort, si.Ctor, fi, v.Term), ft)
	}
	e.fail("selector .%s on %s", x.Name, t)
	return SV{}
}

func fieldIndex(st *types.Struct, name string) (int, types.Type) {
	for i := 0; i < st.NumFields(); i++ {
		if st.Field(i).Name() == name {
			return i, st.Field(i).Type()
		}
	}
	return -1, nil
}

func (e *Eval) call(x *spec.Call) SV {
	// conversions
	if te, ok := x.Fun.(*spec.TypeE); ok {
		return e.convert(e.ResolveType(te.T), x.Args)
	}
	name := ""
	switch f := x.Fun.(type) {
	case *spec.Ident:
		name = f.Name
	case *spec.Selector:
		if id, ok := f.X.(*spec.Ident); ok {
			name = id.Name + "." + f.Name
		}
	}
	if name == "" {
		e.fail("unsupported call target")
	}
	if _, bound := e.Scope.lookup(name); !bound {
		if spec.IsBasicType(name) {
			return e.convert(e.ResolveType(&spec.TypeExpr{Kind: "name", Name: name}), x.Args)
		}
	}
	switch name {
	case "old":
		if e.Old == nil {
			e.fail("old() not available here")
		}
		o := e.with(e.Old)
		if e.OldScope != nil {
			o.Scope = e.Scope.rebase(e.OldScope)
		}
		return o.Eval(x.Args[0])
	case "now": // now(p): the structure below the owned parameter p after the call (p is modified in place)
		id, ok := x.Args[0].(*spec.Ident)
		if !ok {
			e.fail("now() takes a parameter name")
		}
		v, ok := e.Scope.lookup("now$" + id.Name)
		if !ok {
			e.fail("now(%s): %s is not an owned parameter modified in place (assigns %s), or no post-state is available here", id.Name, id.Name, id.Name)
		}
		return v
	case "len", "cap":
		v := e.Eval(x.Args[0])
		switch v.T.Underlying().(type) {
		case *types.Slice:
			if name == "len" {
				return SV{T: tInt, Term: SlLen(v.Term)}
			}
			return SV{T: tInt, Term: SlCap(v.Term)}
		case *types.Basic:
			if isString(v.T) {
				return SV{T: tInt, Term: StrLen(v.Term)}
			}
		case *types.Array:
			return SV{Const: big.NewInt(v.T.Underlying().(*types.Array).Len())}
		case *types.Map:
			return SV{T: tInt, Term: e.P.mapLen(e.Env, e.Heap, v)}
		}
		e.fail("len of %s", v.T)
	case "sameslice":
		a, b := e.Eval(x.Args[0]), e.Eval(x.Args[1])
		return boolSV(smt.Eq(a.Term, b.Term))
	case "present": // present(m, k): the local map m has an entry for key k
		m, k := e.Eval(x.Args[0]), e.Eval(x.Args[1])
		if m.MapP == nil {
			e.fail("present() needs an exactly modelled local map (made by this function, never passed on)")
		}
		mt := m.T.Underlying().(*types.Map)
		k = e.coerce(k, mt.Key())
		return boolSV(smt.Select(m.MapP, e.term(k)))
	case "samestr": // the same substring of the same underlying text (not just equal content)
		a, b := e.Eval(x.Args[0]), e.Eval(x.Args[1])
		if a.T == nil || b.T == nil || !isString(a.T) || !isString(b.T) {
			e.fail("samestr takes two strings")
		}
		return boolSV(smt.And(smt.Eq(StrLen(a.Term), StrLen(b.Term)), smt.Or(smt.Eq(StrLen(a.Term), bv64(0)),
			smt.And(smt.Eq(StrArr(a.Term), StrArr(b.Term)), smt.Eq(StrOff(a.Term), StrOff(b.Term))))))
	case "samehdr": // ref, off, len equal; cap ignored
		a, b := e.Eval(x.Args[0]), e.Eval(x.Args[1])
		return boolSV(smt.And(smt.Eq(SlRef(a.Term), SlRef(b.Term)), smt.Eq(SlOff(a.Term), SlOff(b.Term)), smt.Eq(SlLen(a.Term), SlLen(b.Term))))
	case "min", "max":
		a, b := e.Eval(x.Args[0]), e.Eval(x.Args[1])
		a, b = e.unify(a, b)
		a, b = e.coerce(a, tInt), e.coerce(b, tInt)
		c := intCmp(token.LSS, a.Term, b.Term, isSigned(a.T))
		if name == "max" {
			c = smt.Not(c)
		}
		return SV{T: a.T, Term: smt.Ite(c, a.Term, b.Term)}
	case "ref": // reference of a slice or pointer, for freshness statements
		v := e.Eval(x.Args[0])
		if v.Loc != nil {
			return SV{T: types.Typ[types.UnsafePointer], Term: v.Loc.Ref}
		}
		return SV{T: types.Typ[types.UnsafePointer], Term: SlRef(v.Term)}
	case "fresh": // the reference did not exist in the old state
		v := e.Eval(x.Args[0])
		var r *smt.Term
		if v.Loc != nil {
			r = v.Loc.Ref
		} else {
			r = SlRef(v.Term)
		}
		if e.Old == nil {
			e.fail("fresh() needs an old state")
		}
		return boolSV(smt.IGe(r, e.Env.Next(e.Old)))
	case "bits": // IEEE-754 bit pattern of a float (floats are modelled by their bits)
		v := e.Eval(x.Args[0])
		if !isFloat(v.T) {
			e.fail("bits() of %s", v.T)
		}
		if v.Term.Sort.W == 32 {
			return SV{T: types.Typ[types.Uint32], Term: v.Term}
		}
		return SV{T: types.Typ[types.Uint64], Term: v.Term}
	case "extends": // out is a with elements appended: same backing position, or a fresh array
		a, b := e.Eval(x.Args[0]), e.Eval(x.Args[1])
		if e.Old == nil {
			e.fail("extends() needs an old state")
		}
		// The offset of a freshly allocated array is not observable; the append model keeps the
		// offset of its first argument in both cases, so "same offset" holds unconditionally.
		same := smt.And(smt.Eq(SlRef(a.Term), SlRef(b.Term)), smt.Eq(SlCap(a.Term), SlCap(b.Term)))
		return boolSV(smt.And(smt.BVUge(SlLen(a.Term), SlLen(b.Term)), smt.Eq(SlOff(a.Term), SlOff(b.Term)),
			smt.Or(same, smt.IGe(SlRef(a.Term), e.Env.Next(e.Old)))))
	case "typeis": // typeis(x, T): the dynamic type of interface value x is T
		v := e.Eval(x.Args[0])
		var te *spec.TypeExpr
		switch a := x.Args[1].(type) {
		case *spec.Ident:
			te = &spec.TypeExpr{Kind: "name", Name: a.Name}
		case *spec.Selector:
			if id, ok := a.X.(*spec.Ident); ok {
				te = &spec.TypeExpr{Kind: "name", Pkg: id.Name, Name: a.Name}
			}
		case *spec.TypeE:
			te = a.T
		case *spec.Unary:
			// *T and *pkg.T
			if a.Op == "*" {
				switch in := a.X.(type) {
				case *spec.Ident:
					te = &spec.TypeExpr{Kind: "ptr", Elem: &spec.TypeExpr{Kind: "name", Name: in.Name}}
				case *spec.Selector:
					if id, ok := in.X.(*spec.Ident); ok {
						te = &spec.TypeExpr{Kind: "ptr", Elem: &spec.TypeExpr{Kind: "name", Pkg: id.Name, Name: in.Name}}
					}
				}
			}
		}
		if te == nil {
			e.fail("typeis: second argument must be a type")
		}
		return boolSV(smt.Eq(IfTyp(v.Term), e.P.T.TypeID(e.ResolveType(te))))
	case "zeroof": // zero value of the type of the argument
		v := e.Eval(x.Args[0])
		if v.T == nil {
			e.fail("zeroof of untyped value")
		}
		return e.FromVal(e.P.T.Zero(v.T), v.T)
	case "wraps":
		a, b := e.Eval(x.Args[0]), e.Eval(x.Args[1])
		e.P.D.AddFunc("wraps", smt.Bool, IfaceSort, IfaceSort)
		return boolSV(smt.App("wraps", smt.Bool, a.Term, b.Term))
	}
	if sf := e.P.lookupSpecFunc(e.Pkg, name); sf != nil {
		return e.applySpecFunc(sf, x.Args)
	}
	if bf, ok := builtinSpecFuncs[name]; ok {
		var args []SV
		for _, a := range x.Args {
			args = append(args, e.Eval(a))
		}
		return bf(e, args)
	}
	e.fail("unknown function %q in specification", name)
	return SV{}
}

var builtinSpecFuncs = map[string]func(e *Eval, args []SV) SV{}

func (e *Eval) applySpecFunc(sf *specFn, args []spec.Expr) SV {
	if len(args) != len(sf.F.Params) {
		e.fail("%s: %d arguments, want %d", sf.F.Name, len(args), len(sf.F.Params))
	}
	defEval := &Eval{P: e.P, Env: e.Env, Pkg: sf.Pkg, Heap: e.Heap, Old: e.Old, TParams: e.TParams, Pos: sf.F.Pos, depth: e.depth, Side: e.Side, Facts: e.Facts}
	sc := &scope{vars: map[string]SV{}}
	// type parameters of a generic definition: bound by name in the calling context, or inferred
	// from the argument types
	tp := map[string]types.Type{}
	for k, v := range e.TParams {
		tp[k] = v
	}
	defEval.TParams = tp
	var argVals []SV
	for i, p := range sf.F.Params {
		v := e.Eval(args[i])
		argVals = append(argVals, v)
		if v.T != nil && !isUntypedNil(v.T) {
			defEval.inferTypeArgs(p.Type, v.T, tp)
		}
	}
	for i, p := range sf.F.Params {
		v := argVals[i]
		pt := defEval.ResolveType(p.Type)
		v = e.coerce(v, pt)
		if v.T != nil && isUntypedNil(v.T) {
			v = e.nilOf(pt)
		}
		if v.T != nil && isInteger(pt) && isInteger(v.T) && intWidth(pt) != intWidth(v.T) {
			e.fail("%s: argument %d has type %s, want %s", sf.F.Name, i, v.T, pt)
		}
		// capture slice content at the call site's heap
		if _, ok := pt.Underlying().(*types.Slice); ok && v.Arr == nil {
			v.Arr = e.arr(v)
		}
		sc.vars[p.Name] = v
	}
	defEval.Scope = sc
	defEval.unfold, defEval.ufSeen, defEval.Owned = e.unfold, e.ufSeen, e.Owned
	if sf.F.Uninterpreted || sf.F.Opaque || sf.isRecursive() {
		return e.applyUF(sf, defEval, sc)
	}
	r := defEval.Eval(sf.F.Body)
	if sf.F.Pred {
		if r.T == nil || !isBool(r.T) {
			e.fail("pred %s is not boolean", sf.F.Name)
		}
		return r
	}
	rt := defEval.ResolveType(sf.F.Result)
	return e.coerce(r, rt)
}

func (e *Eval) convert(to types.Type, args []spec.Expr) SV {
	if len(args) != 1 {
		e.fail("conversion takes one argument")
	}
	v := e.Eval(args[0])
	if v.T == nil {
		if isInteger(to) {
			return e.coerce(v, to)
		}
		e.fail("constant converted to %s", to)
	}
	switch {
	case isInteger(to) && isInteger(v.T):
		return SV{T: to, Term: convertInt(v.Term, v.T, to)}
	case isString(to) && isString(v.T):
		return SV{T: to, Term: v.Term}
	case isString(to):
		if _, ok := v.T.Underlying().(*types.Slice); ok {
			return SV{T: to, Term: MkStr(e.arr(v), SlOff(v.Term), SlLen(v.Term))}
		}
	case isBool(to) && isBool(v.T):
		return v
	}
	if st, ok := to.Underlying().(*types.Slice); ok {
		if isString(v.T) && intWidth(st.Elem()) == 8 {
			h := MkSlice(smt.IntLit(-1), StrOff(v.Term), StrLen(v.Term), StrLen(v.Term))
			return SV{T: to, Term: h, Arr: StrArr(v.Term)}
		}
		if _, ok := v.T.Underlying().(*types.Slice); ok {
			return SV{T: to, Term: v.Term, Arr: v.Arr}
		}
	}
	if e.P.T.SortOf(to) == e.P.T.SortOf(v.T) {
		nv := v
		nv.T = to
		return nv
	}
	e.fail("unsupported conversion %s -> %s", v.T, to)
	return SV{}
}

func describeErr(r any) string {
	switch x := r.(type) {
	case specErr:
		return x.msg
	case unsupported:
		return "unsupported: " + x.msg
	}
	return fmt.Sprint(r)
}

func firstLine(s string) string {
	if i := strings.IndexByte(s, '\n'); i >= 0 {
		return s[:i]
	}
	return s
}
