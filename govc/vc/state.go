package vc

import (
	"fmt"
	"go/types"

	"golang.org/x/tools/go/ssa"

	"govc/smt"
)

// Val is the symbolic value of an ssa.Value: *smt.Term, *Loc (pointer), Tuple, *FuncVal.
type Val interface{}

type Tuple []Val

type locKind int

const (
	LRoot locKind = iota // H$<T>[Ref], then Path
	LElem                // A$<elem>[Ref][Idx], then Path
	LArr                 // pointer to an array object stored as backing array A$<elem>[Ref] starting at Idx (length N)
)

type pathElem struct {
	Field int       // >= 0: struct field index
	Idx   *smt.Term // != nil: array index (BV64)
	T     types.Type // type of the value *after* applying this step
}

// Loc is a pointer value: a root cell plus a static path into it.
type Loc struct {
	Kind locKind
	Ref  *smt.Term // Int
	Idx  *smt.Term // LElem / LArr: absolute index into the backing array (BV64)
	Root types.Type // type of the root cell (LRoot) or of the array element (LElem/LArr)
	Path []pathElem
	N    int64 // LArr: array length
	fresh  bool        // allocated by the function under verification (never nil, never aliases inputs)
	global *ssa.Global // package-level variable
}

func (l *Loc) String() string {
	return fmt.Sprintf("loc{%d %s %v %s %d}", l.Kind, l.Ref, l.Idx, l.Root, len(l.Path))
}

// Type is the pointee type.
func (l *Loc) Type() types.Type {
	if len(l.Path) > 0 {
		return l.Path[len(l.Path)-1].T
	}
	if l.Kind == LArr {
		return types.NewArray(l.Root, l.N)
	}
	return l.Root
}

func (l *Loc) extend(pe pathElem) *Loc {
	n := *l
	n.Path = append(append([]pathElem{}, l.Path...), pe)
	return &n
}

// State is one symbolic execution state.
type State struct {
	heap   map[string]*smt.Term
	pc     []*smt.Term
	pcLab  []string
	vars   map[string]Val
	trace  []string
}

func (s *State) clone() *State {
	n := &State{heap: make(map[string]*smt.Term, len(s.heap)), vars: make(map[string]Val, len(s.vars))}
	for k, v := range s.heap {
		n.heap[k] = v
	}
	for k, v := range s.vars {
		n.vars[k] = v
	}
	n.pc = append([]*smt.Term{}, s.pc...)
	n.pcLab = append([]string{}, s.pcLab...)
	n.trace = append([]string{}, s.trace...)
	return n
}

func (s *State) assume(t *smt.Term, label string) {
	if t == nil || t.IsTrue() {
		return
	}
	s.pc = append(s.pc, t)
	s.pcLab = append(s.pcLab, label)
}

// heapSnapshot copies only the heap (for old()).
func (s *State) heapSnapshot() map[string]*smt.Term {
	n := make(map[string]*smt.Term, len(s.heap))
	for k, v := range s.heap {
		n[k] = v
	}
	return n
}

// ---- heap access

// Env provides fresh names and declarations during one function's verification.
type Env struct {
	T      *Types
	prefix string
	n      int
}

func (e *Env) Fresh(hint string, s *smt.Sort) *smt.Term {
	e.n++
	return smt.Const(fmt.Sprintf("%s!%d", sanitize(hint), e.n), s)
}

// FreshVal is Fresh for values: single-constructor datatypes (slices, strings, structs) are built from
// fresh leaf constants, so that accessors fold away and queries stay in the bit-vector/array fragment.
func (e *Env) FreshVal(hint string, s *smt.Sort) *smt.Term {
	e.n++
	return flatConst(fmt.Sprintf("%s!%d", sanitize(hint), e.n), s)
}

func flatConst(name string, s *smt.Sort) *smt.Term {
	if s.Kind == smt.KData && len(s.Ctors) == 1 && s != IfaceSort {
		c := s.Ctors[0]
		args := make([]*smt.Term, len(c.Fields))
		for i, f := range c.Fields {
			args[i] = flatConst(name+"."+f.Name, f.Sort)
		}
		return smt.MkCtor(s, c, args...)
	}
	return smt.Const(name, s)
}

func (e *Env) heapVar(heap map[string]*smt.Term, name string, s *smt.Sort) *smt.Term {
	if t, ok := heap[name]; ok {
		return t
	}
	gen := "0"
	if g, ok := heap["$gen"]; ok {
		gen = g.Val.String()
	}
	t := smt.Const(name+"!g"+gen, s)
	heap[name] = t
	return t
}

// havocAll forgets every heap: materialised heaps are dropped and heaps materialised
// later get names of a new generation (so they cannot alias the entry heap).
func (e *Env) havocAll(heap map[string]*smt.Term) {
	next := e.heapVar(heap, "next", smt.Int)
	for k := range heap {
		delete(heap, k)
	}
	e.n++
	heap["$gen"] = smt.IntLit(int64(e.n))
	_ = next
}

// cells of type T: H$<sort> : Array Int sort
func (e *Env) rootHeapName(t types.Type) (string, *smt.Sort) {
	s := e.T.SortOf(t)
	return heapName("H", s), smt.Array(smt.Int, s)
}

// backing arrays with element type T: A$<sort> : Array Int (Array BV64 sort)
func (e *Env) arrHeapName(elem types.Type) (string, *smt.Sort) {
	s := e.T.SortOf(elem)
	return heapName("A", s), smt.Array(smt.Int, smt.Array(BV64, s))
}

func (e *Env) arrHeap(heap map[string]*smt.Term, elem types.Type) *smt.Term {
	n, s := e.arrHeapName(elem)
	return e.heapVar(heap, n, s)
}

// Backing returns the backing array (Array BV64 elem) of reference ref.
func (e *Env) Backing(heap map[string]*smt.Term, elem types.Type, ref *smt.Term) *smt.Term {
	return smt.Select(e.arrHeap(heap, elem), ref)
}

func (e *Env) SetBacking(heap map[string]*smt.Term, elem types.Type, ref, arr *smt.Term) {
	n, _ := e.arrHeapName(elem)
	heap[n] = smt.Store(e.arrHeap(heap, elem), ref, arr)
}

// Root cells are stored leaf by leaf (Burstall style, recursively through single-constructor
// datatypes): a cell of struct type S with a slice field f lives in the heaps H$S.f.sl-ref,
// H$S.f.sl-len, ... Each is an array from references to a scalar sort, so reading a field never
// produces a datatype term and the queries stay in the bit-vector/array fragment.

//
// A field whose type is itself a Go struct (an embedded object such as a sync.Mutex, a list.List
// or a nested record) is not part of its parent's cell: it is an object of its own whose
// reference is derived from the parent's reference by an injective function fa$<S>.<f>. Taking
// the address of such a field therefore yields an ordinary pointer (&s.waiters can be stored in
// Element.list and compared), and both views of the memory coincide.

type leaf struct {
	name string // heap name
	sort *smt.Sort
}

func isGoStruct(t types.Type) bool {
	if _, ok := t.(*types.TypeParam); ok {
		return false
	}
	_, ok := t.Underlying().(*types.Struct)
	return ok
}

// builtinData: the encodings of strings, slices and interfaces (flattened into leaves).
func builtinData(s *smt.Sort) bool {
	return s == StrSort || s == SliceSort || s == IfaceSort
}

// FieldAddr is the reference of the embedded object in field fi of the struct cell ref of type t.
func (e *Env) FieldAddr(t types.Type, fi int, ref *smt.Term) *smt.Term {
	si := e.T.StructOf(t)
	name := "fa$" + si.Sort.Name + "." + sanitize(si.Fields[fi].Name())
	d := e.T.D
	if d.Func(name) == nil {
		d.AddFunc(name, smt.Int, smt.Int)
		inv := "fainv$" + si.Sort.Name + "." + sanitize(si.Fields[fi].Name())
		d.AddFunc(inv, smt.Int, smt.Int)
		d.AddFunc("fatag", smt.Int, smt.Int)
		e.T.faCount++
		r := smt.BVar("r!fa", smt.Int)
		app := smt.App(name, smt.Int, r)
		d.AddFunc("rbase", smt.Int, smt.Int)
		d.AddAxiom("embedded object reference "+name, smt.Forall([]*smt.Term{r}, smt.And(
			smt.Eq(smt.App(inv, smt.Int, app), r),
			smt.Eq(smt.App("fatag", smt.Int, app), smt.IntLit(int64(e.T.faCount))),
			smt.ILt(app, smt.IntLit(0)),
			// the allocation an embedded object belongs to is that of its parent
			smt.Eq(smt.App("rbase", smt.Int, app), smt.App("rbase", smt.Int, r))), app))
	}
	return smt.App(name, smt.Int, ref)
}

func (e *Env) leafNames(prefix string, s *smt.Sort, out *[]leaf) {
	if builtinData(s) {
		for _, f := range s.Ctors[0].Fields {
			e.leafNames(prefix+"."+f.Name, f.Sort, out)
		}
		return
	}
	*out = append(*out, leaf{name: prefix, sort: smt.Array(smt.Int, s)})
}

// rootLeaves lists the heaps that hold cells of type t, embedded objects included.
func (e *Env) rootLeaves(t types.Type) []leaf {
	var out []leaf
	e.cellLeaves(t, &out, 0)
	return out
}

func (e *Env) cellLeaves(t types.Type, out *[]leaf, depth int) {
	if depth > 6 {
		return
	}
	if isGoStruct(t) {
		si := e.T.StructOf(t)
		for _, f := range si.Fields {
			if isGoStruct(f.Type()) {
				e.cellLeaves(f.Type(), out, depth+1)
			} else {
				e.leafNames("H$"+si.Sort.Name+"."+sanitize(f.Name()), e.T.SortOf(f.Type()), out)
			}
		}
		return
	}
	s := e.T.SortOf(t)
	e.leafNames(heapName("H", s), s, out)
}

func (e *Env) leafValue(heap map[string]*smt.Term, prefix string, s *smt.Sort, ref *smt.Term) *smt.Term {
	if builtinData(s) {
		c := s.Ctors[0]
		args := make([]*smt.Term, len(c.Fields))
		for i, f := range c.Fields {
			args[i] = e.leafValue(heap, prefix+"."+f.Name, f.Sort, ref)
		}
		return smt.MkCtor(s, c, args...)
	}
	return smt.Select(e.heapVar(heap, prefix, smt.Array(smt.Int, s)), ref)
}

func (e *Env) setLeafValue(heap map[string]*smt.Term, prefix string, s *smt.Sort, ref, v *smt.Term) {
	if builtinData(s) {
		c := s.Ctors[0]
		for i, f := range c.Fields {
			e.setLeafValue(heap, prefix+"."+f.Name, f.Sort, ref, smt.Acc(s, c, i, v))
		}
		return
	}
	cur := e.heapVar(heap, prefix, smt.Array(smt.Int, s))
	if v == smt.Select(cur, ref) {
		return // this leaf is not touched by the update
	}
	heap[prefix] = smt.Store(cur, ref, v)
}

// cellValue is the value of the cell of type t at reference ref.
func (e *Env) cellValue(heap map[string]*smt.Term, t types.Type, ref *smt.Term) *smt.Term {
	if isGoStruct(t) {
		si := e.T.StructOf(t)
		args := make([]*smt.Term, len(si.Fields))
		for i, f := range si.Fields {
			if isGoStruct(f.Type()) {
				args[i] = e.cellValue(heap, f.Type(), e.FieldAddr(t, i, ref))
			} else {
				args[i] = e.leafValue(heap, "H$"+si.Sort.Name+"."+sanitize(f.Name()), e.T.SortOf(f.Type()), ref)
			}
		}
		return smt.MkCtor(si.Sort, si.Ctor, args...)
	}
	s := e.T.SortOf(t)
	return e.leafValue(heap, heapName("H", s), s, ref)
}

func (e *Env) setCellValue(heap map[string]*smt.Term, t types.Type, ref, v *smt.Term) {
	if isGoStruct(t) {
		si := e.T.StructOf(t)
		for i, f := range si.Fields {
			fv := smt.Acc(si.Sort, si.Ctor, i, v)
			if isGoStruct(f.Type()) {
				e.setCellValue(heap, f.Type(), e.FieldAddr(t, i, ref), fv)
			} else {
				e.setLeafValue(heap, "H$"+si.Sort.Name+"."+sanitize(f.Name()), e.T.SortOf(f.Type()), ref, fv)
			}
		}
		return
	}
	s := e.T.SortOf(t)
	e.setLeafValue(heap, heapName("H", s), s, ref, v)
}

// Field is the location of field fi (of type ft) of the struct location l.
func (e *Env) Field(l *Loc, fi int, ft types.Type) *Loc {
	if l.Kind == LRoot && len(l.Path) == 0 && l.global == nil && isGoStruct(ft) && isGoStruct(l.Root) {
		return &Loc{Kind: LRoot, Ref: e.FieldAddr(l.Root, fi, l.Ref), Root: ft, fresh: l.fresh}
	}
	return l.extend(pathElem{Field: fi, T: ft})
}

// rootValue reads the root cell of a location.
func (e *Env) rootValue(heap map[string]*smt.Term, l *Loc) *smt.Term {
	switch l.Kind {
	case LRoot:
		return e.cellValue(heap, l.Root, l.Ref)
	case LElem:
		return smt.Select(e.Backing(heap, l.Root, l.Ref), l.Idx)
	}
	panic("rootValue of array pointer")
}

func (e *Env) setRootValue(heap map[string]*smt.Term, l *Loc, v *smt.Term) {
	switch l.Kind {
	case LRoot:
		e.setCellValue(heap, l.Root, l.Ref, v)
	case LElem:
		e.SetBacking(heap, l.Root, l.Ref, smt.Store(e.Backing(heap, l.Root, l.Ref), l.Idx, v))
	default:
		panic("setRootValue of array pointer")
	}
}

// Load reads the value at a location.
func (e *Env) Load(heap map[string]*smt.Term, l *Loc) *smt.Term {
	if l.Kind == LArr && len(l.Path) == 0 {
		unsupp("load of whole backing-array object")
	}
	if l.Kind == LRoot && len(l.Path) > 0 && l.Path[0].Idx == nil && isGoStruct(l.Root) && l.global == nil {
		// a field of a struct cell: read its leaves directly
		si := e.T.StructOf(l.Root)
		f := si.Fields[l.Path[0].Field]
		v := e.leafValue(heap, "H$"+si.Sort.Name+"."+sanitize(f.Name()), e.T.SortOf(f.Type()), l.Ref)
		t := l.Path[0].T
		for _, pe := range l.Path[1:] {
			v = e.project(v, t, pe)
			t = pe.T
		}
		return v
	}
	v := e.rootValue(heap, l)
	t := l.Root
	for _, pe := range l.Path {
		v = e.project(v, t, pe)
		t = pe.T
	}
	return v
}

func (e *Env) project(v *smt.Term, t types.Type, pe pathElem) *smt.Term {
	if pe.Idx != nil {
		return smt.Select(v, pe.Idx)
	}
	si := e.T.StructOf(t)
	return smt.Acc(si.Sort, si.Ctor, pe.Field, v)
}

// Store writes nv at a location (functional update along the path).
func (e *Env) Store(heap map[string]*smt.Term, l *Loc, nv *smt.Term) {
	if l.Kind == LArr && len(l.Path) == 0 {
		unsupp("store of whole backing-array object")
	}
	if l.Kind == LRoot && len(l.Path) > 0 && l.Path[0].Idx == nil && isGoStruct(l.Root) && l.global == nil {
		si := e.T.StructOf(l.Root)
		f := si.Fields[l.Path[0].Field]
		prefix := "H$" + si.Sort.Name + "." + sanitize(f.Name())
		fs := e.T.SortOf(f.Type())
		old := e.leafValue(heap, prefix, fs, l.Ref)
		e.setLeafValue(heap, prefix, fs, l.Ref, e.update(old, l.Path[0].T, l.Path[1:], nv))
		return
	}
	root := e.rootValue(heap, l)
	e.setRootValue(heap, l, e.update(root, l.Root, l.Path, nv))
}

func (e *Env) update(v *smt.Term, t types.Type, path []pathElem, nv *smt.Term) *smt.Term {
	if len(path) == 0 {
		if v.Sort != nv.Sort {
			panic(fmt.Sprintf("store sort mismatch: %s := %s (type %s)", v.Sort, nv.Sort, t))
		}
		return nv
	}
	pe := path[0]
	if pe.Idx != nil {
		inner := e.update(smt.Select(v, pe.Idx), pe.T, path[1:], nv)
		return smt.Store(v, pe.Idx, inner)
	}
	si := e.T.StructOf(t)
	args := make([]*smt.Term, len(si.Fields))
	for i := range si.Fields {
		args[i] = smt.Acc(si.Sort, si.Ctor, i, v)
	}
	args[pe.Field] = e.update(args[pe.Field], pe.T, path[1:], nv)
	return smt.MkCtor(si.Sort, si.Ctor, args...)
}

// Alloc returns a fresh reference.
func (e *Env) Alloc(st *State) *smt.Term {
	next := e.heapVar(st.heap, "next", smt.Int)
	st.heap["next"] = smt.IAdd(next, smt.IntLit(1))
	return next
}

func (e *Env) Next(heap map[string]*smt.Term) *smt.Term { return e.heapVar(heap, "next", smt.Int) }

// locTerm converts a pointer value to its SMT representation (root cells only).
func locTerm(l *Loc) *smt.Term {
	if l.Kind == LRoot && len(l.Path) == 0 {
		return l.Ref
	}
	unsupp("interior pointer escapes to an SMT value")
	return nil
}
