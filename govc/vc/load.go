package vc

import (
	"embed"
	"fmt"
	"go/token"
	"go/types"
	"os"
	"path/filepath"
	"sort"
	"strings"

	"golang.org/x/tools/go/packages"
	"golang.org/x/tools/go/ssa"
	"golang.org/x/tools/go/ssa/ssautil"

	"govc/smt"
	"govc/spec"
)

//go:embed stdlib/*.spec
var stdlibFS embed.FS

type specFn struct {
	F   *spec.SpecFunc
	Pkg *types.Package
	recKnown, rec bool
	// heap-reading recursive definitions: the heaps read by the body, per instantiation (see applyUF)
	heapKeys    map[string][]leaf
	discovering map[string]bool
}

// axiomDecl is a file-level `axiom` (an assumption about uninterpreted specification functions).
type axiomDecl struct {
	C   *spec.Clause
	Pkg *types.Package
}

// Contract is a parsed contract bound to its function.
type Contract struct {
	C    *spec.FuncContract
	Fn   *ssa.Function  // nil for extern
	Pkg  *types.Package // package whose scope resolves names in the contract
	File string
}

type Prog struct {
	Fset    *token.FileSet
	Pkgs    []*packages.Package
	SSA     *ssa.Program
	D       *smt.Decls
	T       *Types
	byFn    map[*ssa.Function]*Contract
	extern  map[string]*Contract
	specFns map[string]*specFn // "pkgpath:name" and ":name" for global ones
	ssaPkg  map[string]*ssa.Package
	errGlobals map[string]bool
	BindErrors []string
	Files   map[string]*spec.File // by package path
	TypeInvs map[string]*spec.TypeInv // by package path + "." + type name
	Monitors map[string]*spec.Monitor
	PkgOf   map[string]*packages.Package
	Assumptions map[string]bool
	needFloatAxioms bool
	Lemmas map[string][]*LemmaDecl
	Trusted map[string]bool // trusted/extern contracts actually used
	DepContracts []string // dependency packages whose contracts were loaded (used as callee contracts only)
	Axioms map[string][]*axiomDecl // by package path
}

type LoadConfig struct {
	Dir      string            // module root (/repo)
	Patterns []string          // packages to load
	Overlay  map[string][]byte // file overlays (mutants)
	Tags     string
}

// GoEnv is the environment for every go command govc runs: the newer toolchain that is installed
// beside the default one (the module needs go >= 1.24), fully offline.
func GoEnv() []string {
	env := os.Environ()
	goroot := "/opt/veriftools/go1.26.8"
	if g := os.Getenv("GOVC_GOROOT"); g != "" {
		goroot = g
	}
	if !strings.HasPrefix(os.Getenv("PATH"), goroot+"/bin:") {
		os.Setenv("PATH", goroot+"/bin:"+os.Getenv("PATH")) // exec.LookPath uses the process environment
	}
	return append(env, "PATH="+os.Getenv("PATH"), "GOFLAGS=-mod=mod", "GOPROXY=off", "GOSUMDB=off", "GOTOOLCHAIN=local", "GOROOT="+goroot)
}

func Load(cfg LoadConfig) (*Prog, error) {
	smt.ResetTerms()
	tags := cfg.Tags
	if tags == "" {
		tags = "verif"
	}
	pc := &packages.Config{
		Mode:       packages.LoadAllSyntax,
		Dir:        cfg.Dir,
		BuildFlags: []string{"-tags=" + tags},
		Overlay:    cfg.Overlay,
		Env:        GoEnv(),
	}
	pkgs, err := packages.Load(pc, cfg.Patterns...)
	if err != nil {
		return nil, err
	}
	var errs []string
	packages.Visit(pkgs, nil, func(p *packages.Package) {
		for _, e := range p.Errors {
			errs = append(errs, e.Error())
		}
	})
	if len(errs) > 0 {
		return nil, fmt.Errorf("package errors:\n%s", strings.Join(errs, "\n"))
	}
	prog, _ := ssautil.AllPackages(pkgs, ssa.GlobalDebug)
	prog.Build()
	d := smt.NewDecls()
	p := &Prog{Fset: prog.Fset, Pkgs: pkgs, SSA: prog, D: d, T: NewTypes(d),
		byFn: map[*ssa.Function]*Contract{}, extern: map[string]*Contract{}, specFns: map[string]*specFn{},
		ssaPkg: map[string]*ssa.Package{}, errGlobals: map[string]bool{}, Files: map[string]*spec.File{},
		TypeInvs: map[string]*spec.TypeInv{}, Monitors: map[string]*spec.Monitor{}, PkgOf: map[string]*packages.Package{},
		Assumptions: map[string]bool{}, Lemmas: map[string][]*LemmaDecl{}, Trusted: map[string]bool{}}
	for _, sp := range prog.AllPackages() {
		p.ssaPkg[sp.Pkg.Path()] = sp
	}
	packages.Visit(pkgs, nil, func(pk *packages.Package) { p.PkgOf[pk.PkgPath] = pk })
	// stdlib models
	ents, _ := stdlibFS.ReadDir("stdlib")
	for _, ent := range ents {
		b, _ := stdlibFS.ReadFile("stdlib/" + ent.Name())
		f, err := spec.ParseFile("stdlib/"+ent.Name(), string(b))
		if err != nil {
			return nil, err
		}
		if err := p.addFile(f, nil); err != nil {
			return nil, err
		}
	}
	// contract files of the loaded packages and of the packages they depend on (the latter are
	// only used as callee contracts here; they are discharged by the check of their own property)
	var withContracts []*packages.Package
	isRoot := map[string]bool{}
	for _, pk := range pkgs {
		isRoot[pk.PkgPath] = true
	}
	packages.Visit(pkgs, nil, func(pk *packages.Package) {
		for _, gf := range pk.GoFiles {
			if filepath.Base(gf) == "verif_contracts.go" {
				withContracts = append(withContracts, pk)
			}
		}
	})
	sort.Slice(withContracts, func(i, j int) bool { return withContracts[i].PkgPath < withContracts[j].PkgPath })
	for _, pk := range withContracts {
		if !isRoot[pk.PkgPath] {
			p.DepContracts = append(p.DepContracts, pk.PkgPath)
		}
		for _, gf := range pk.GoFiles {
			if filepath.Base(gf) != "verif_contracts.go" {
				continue
			}
			var src []byte
			if o, ok := cfg.Overlay[gf]; ok {
				src = o
			} else {
				src, err = os.ReadFile(gf)
				if err != nil {
					return nil, err
				}
			}
			f, err := spec.ParseFile(gf, string(src))
			if err != nil {
				return nil, err
			}
			p.Files[pk.PkgPath] = f
			if err := p.addFile(f, pk); err != nil {
				return nil, err
			}
		}
	}
	return p, nil
}

func (p *Prog) addFile(f *spec.File, pk *packages.Package) error {
	var tp *types.Package
	if pk != nil {
		tp = pk.Types
	}
	for _, sf := range f.SpecFuncs {
		key := ":" + sf.Name
		if tp != nil {
			key = tp.Path() + ":" + sf.Name
		}
		if _, dup := p.specFns[key]; dup {
			return fmt.Errorf("%s: duplicate spec function %s", sf.Pos, sf.Name)
		}
		p.specFns[key] = &specFn{F: sf, Pkg: tp}
	}
	for _, name := range f.Owned {
		if tp == nil {
			return fmt.Errorf("%s: owned type %s outside of a package", f.Name, name)
		}
		o := tp.Scope().Lookup(name)
		if o == nil {
			return fmt.Errorf("%s: owned type %s not found in %s", f.Name, name, tp.Path())
		}
		p.T.DeclareOwned(o.Type())
		p.Assumptions["owned type "+tp.Path()+"."+name+": incoming pointers to it are roots of disjoint tree-shaped structures (every function under contract is checked to re-establish this for what it returns or stores)"] = true
	}
	for _, ax := range f.Axioms {
		path := ""
		if tp != nil {
			path = tp.Path()
		}
		if p.Axioms == nil {
			p.Axioms = map[string][]*axiomDecl{}
		}
		p.Axioms[path] = append(p.Axioms[path], &axiomDecl{C: ax, Pkg: tp})
	}
	for _, l := range f.Lemmas {
		path := ""
		if tp != nil {
			path = tp.Path()
		}
		p.Lemmas[path] = append(p.Lemmas[path], &LemmaDecl{L: l, Pkg: tp})
	}
	for _, ti := range f.TypeInvs {
		if tp != nil {
			n := ti.Type
			if n.Kind == "ptr" {
				n = n.Elem
			}
			p.TypeInvs[tp.Path()+"."+n.Name] = ti
		}
	}
	for _, m := range f.Monitors {
		if tp != nil {
			p.Monitors[tp.Path()+"."+m.Type] = m
		}
	}
	for _, fc := range f.Funcs {
		c := &Contract{C: fc, Pkg: tp, File: f.Name}
		if fc.Extern || (tp == nil) {
			path := fc.PkgPath
			if path == "" && tp != nil {
				path = tp.Path()
			}
			c.Pkg = nil
			if sp := p.ssaPkg[path]; sp != nil {
				c.Pkg = sp.Pkg
			}
			key := path + "." + fc.Key()
			p.extern[key] = c
			continue
		}
		fn := p.findFunc(tp, fc)
		if fn == nil {
			p.BindErrors = append(p.BindErrors, fmt.Sprintf("%s: contract for %s matches no function in %s", fc.Pos, fc.Key(), tp.Path()))
			continue
		}
		c.Fn = fn
		p.byFn[fn] = c
	}
	return nil
}

func (p *Prog) findFunc(tp *types.Package, fc *spec.FuncContract) *ssa.Function {
	sp := p.ssaPkg[tp.Path()]
	if sp == nil {
		return nil
	}
	if fc.RecvType == nil {
		// closures: Name$1
		if i := strings.Index(fc.Name, "$"); i >= 0 {
			outer := sp.Func(fc.Name[:i])
			if outer == nil {
				return nil
			}
			for _, af := range outer.AnonFuncs {
				if af.Name() == fc.Name {
					return af
				}
			}
			return nil
		}
		return sp.Func(fc.Name)
	}
	rt := fc.RecvType
	if rt.Kind == "ptr" {
		rt = rt.Elem
	}
	o := tp.Scope().Lookup(rt.Name)
	if o == nil {
		return nil
	}
	named, ok := o.Type().(*types.Named)
	if !ok {
		return nil
	}
	for i := 0; i < named.NumMethods(); i++ {
		m := named.Method(i)
		if m.Name() == fc.Name {
			return p.SSA.FuncValue(m)
		}
	}
	return nil
}

// FuncKey is the name under which extern contracts are looked up.
func FuncKey(fn *ssa.Function) string {
	if o := fn.Origin(); o != nil {
		fn = o
	}
	path := ""
	if fn.Pkg != nil {
		path = fn.Pkg.Pkg.Path()
	} else if fn.Object() != nil && fn.Object().Pkg() != nil {
		path = fn.Object().Pkg().Path()
	}
	if recv := fn.Signature.Recv(); recv != nil {
		t := recv.Type()
		star := ""
		if pt, ok := t.(*types.Pointer); ok {
			star = "*"
			t = pt.Elem()
		}
		name := "?"
		if n, ok := t.(*types.Named); ok {
			name = n.Obj().Name()
		}
		return path + ".(" + star + name + ")." + fn.Name()
	}
	return path + "." + fn.Name()
}

func (p *Prog) ContractOf(fn *ssa.Function) *Contract {
	if o := fn.Origin(); o != nil {
		fn = o
	}
	if c, ok := p.byFn[fn]; ok {
		return c
	}
	if c, ok := p.extern[FuncKey(fn)]; ok {
		return c
	}
	return nil
}

// LookupSpecFunc is lookupSpecFunc for tools outside the package (replay generation).
func (p *Prog) LookupSpecFunc(pkg *types.Package, name string) *spec.SpecFunc {
	if sf := p.lookupSpecFunc(pkg, name); sf != nil {
		return sf.F
	}
	return nil
}

func (p *Prog) lookupSpecFunc(pkg *types.Package, name string) *specFn {
	if pkg != nil {
		if sf, ok := p.specFns[pkg.Path()+":"+name]; ok {
			return sf
		}
	}
	if i := strings.Index(name, "."); i >= 0 && pkg != nil {
		if ip := p.findImport(pkg, name[:i]); ip != nil {
			if sf, ok := p.specFns[ip.Path()+":"+name[i+1:]]; ok {
				return sf
			}
		}
	}
	if sf, ok := p.specFns[":"+name]; ok {
		return sf
	}
	return nil
}

func (p *Prog) findImport(pkg *types.Package, name string) *types.Package {
	if pkg != nil {
		for _, ip := range pkg.Imports() {
			if ip.Name() == name {
				return ip
			}
		}
	}
	// fall back to any loaded package with that name or path (stdlib specs use full names)
	if sp, ok := p.ssaPkg[name]; ok {
		return sp.Pkg
	}
	var cands []string
	for path, sp := range p.ssaPkg {
		if sp.Pkg.Name() == name {
			cands = append(cands, path)
		}
	}
	sort.Strings(cands)
	// prefer standard library (no dot in first path element)
	for _, c := range cands {
		if !strings.Contains(strings.SplitN(c, "/", 2)[0], ".") {
			return p.ssaPkg[c].Pkg
		}
	}
	if len(cands) > 0 {
		return p.ssaPkg[cands[0]].Pkg
	}
	return nil
}

// globalValue is the value of a package-level variable. Package-level variables that are
// only assigned by their package initialiser are modelled as constants.
func (p *Prog) globalValue(env *Env, heap map[string]*smt.Term, v *types.Var) SV {
	name := "gv$" + sanitize(v.Pkg().Path()) + "$" + v.Name()
	s := p.T.SortOf(v.Type())
	if s == IfaceSort && types.Identical(v.Type(), types.Universe.Lookup("error").Type()) {
		p.errGlobals[name] = true
	}
	return SV{T: v.Type(), Term: smt.Const(name, s)}
}

// boxFuncs declares the injective boxing of values of sort s into interface payloads.
func (p *Prog) boxFuncs(s *smt.Sort) (box, unbox string) {
	box = "box$" + sanitize(s.Name)
	unbox = "unbox$" + sanitize(s.Name)
	p.D.AddFunc(box, smt.Int, s)
	if p.D.Func(unbox) == nil {
		p.D.AddFunc(unbox, s, smt.Int)
		bv := smt.BVar("bx", s)
		p.D.AddAxiom("box-injective "+s.Name, smt.Forall([]*smt.Term{bv},
			smt.Eq(smt.App(unbox, s, smt.App(box, smt.Int, bv)), bv), smt.App(box, smt.Int, bv)))
	}
	return box, unbox
}

// unbox extracts the payload of type t from an interface value (meaningful when its dynamic type is t).
func (p *Prog) unbox(iface *smt.Term, t types.Type) Val {
	s := p.T.SortOf(t)
	if s == smt.Int {
		if pt, ok := t.Underlying().(*types.Pointer); ok {
			return &Loc{Kind: LRoot, Ref: IfVal(iface), Root: pt.Elem()}
		}
		return IfVal(iface)
	}
	_, un := p.boxFuncs(s)
	return smt.App(un, s, IfVal(iface))
}

func (p *Prog) mapLen(env *Env, heap map[string]*smt.Term, v SV) *smt.Term {
	unsupp("map length in specification")
	return nil
}

// Functions returns the functions under contract in package path, sorted by name.
func (p *Prog) Functions(path string) []*Contract {
	var out []*Contract
	for fn, c := range p.byFn {
		if fn.Pkg != nil && fn.Pkg.Pkg.Path() == path || (fn.Pkg == nil && c.Pkg != nil && c.Pkg.Path() == path) {
			out = append(out, c)
		}
	}
	sort.Slice(out, func(i, j int) bool { return out[i].C.Key() < out[j].C.Key() })
	return out
}
