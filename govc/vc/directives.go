package vc

import (
	"fmt"
	"go/types"
	"sort"
	"strings"

	"golang.org/x/tools/go/ssa"

	"govc/smt"
)

// Directives are package-wide structural obligations decided by a scan of the SSA (no solver).
//
//	//@ directive fieldcalls T.f M1 M2 ...
//
// Every use of field f of struct T in the package is either the receiver of a call of one of the
// listed methods, a nil comparison, or the initialisation of the field with a freshly constructed
// value; in particular the field's value never escapes into a variable, argument or other field
// through which a different method could be applied to it.

func (p *Prog) CheckDirectives(pkgPath string) *FuncResult {
	f := p.Files[pkgPath]
	if f == nil || len(f.Dirs) == 0 {
		return nil
	}
	res := &FuncResult{Key: "directives", Pkg: pkgPath, Paths: 1}
	sp := p.ssaPkg[pkgPath]
	for _, d := range f.Dirs {
		if d.Kind != "directive" || len(d.Args) < 3 || d.Args[0] != "fieldcalls" {
			continue
		}
		// args: fieldcalls T . f M1 M2 ...   (the lexer splits T.f)
		tname, fname := d.Args[1], ""
		rest := d.Args[2:]
		if len(rest) >= 2 && rest[0] == "." {
			fname = rest[1]
			rest = rest[2:]
		}
		allowed := map[string]bool{}
		for _, m := range rest {
			allowed[m] = true
		}
		obj := sp.Pkg.Scope().Lookup(tname)
		ob := fmt.Sprintf("%s.%s.%s#fieldcalls", pkgShort(pkgPath), tname, fname)
		bad := func(what string, pos ssa.Instruction) {
			res.Queries = append(res.Queries, &Query{Func: "directives", Ob: ob, Kind: "scan", Goal: smt.False,
				Pos: p.Fset.Position(pos.Pos()), Desc: fmt.Sprintf("field %s.%s: %s (allowed: only calls of %s)", tname, fname, what, strings.Join(rest, ", "))})
		}
		if obj == nil {
			res.Unsupported = fmt.Sprintf("%s: directive fieldcalls: unknown type %s", d.Pos, tname)
			return res
		}
		st, ok := obj.Type().Underlying().(*types.Struct)
		if !ok {
			res.Unsupported = fmt.Sprintf("%s: directive fieldcalls: %s is not a struct", d.Pos, tname)
			return res
		}
		fi, _ := fieldIndex(st, fname)
		if fi < 0 {
			res.Unsupported = fmt.Sprintf("%s: directive fieldcalls: no field %s.%s", d.Pos, tname, fname)
			return res
		}
		sites := 0
		var fns []*ssa.Function
		seen := map[*ssa.Function]bool{}
		var add func(fn *ssa.Function)
		add = func(fn *ssa.Function) {
			if fn == nil || seen[fn] {
				return
			}
			seen[fn] = true
			fns = append(fns, fn)
			for _, a := range fn.AnonFuncs {
				add(a)
			}
		}
		for _, m := range sp.Members {
			switch m := m.(type) {
			case *ssa.Function:
				add(m)
			case *ssa.Type:
				if named, ok := m.Type().(*types.Named); ok {
					for i := 0; i < named.NumMethods(); i++ {
						add(p.SSA.FuncValue(named.Method(i)))
					}
				}
			}
		}
		sort.Slice(fns, func(i, j int) bool { return fns[i].String() < fns[j].String() })
		isField := func(v ssa.Value) bool {
			fa, ok := v.(*ssa.FieldAddr)
			if !ok || fa.Field != fi {
				return false
			}
			pt, ok := fa.X.Type().Underlying().(*types.Pointer)
			return ok && types.Identical(pt.Elem().Underlying(), st)
		}
		for _, fn := range fns {
			for _, b := range fn.Blocks {
				for _, in := range b.Instrs {
					switch in := in.(type) {
					case *ssa.Store:
						if isField(in.Addr) {
							sites++
							// initialisation: the stored value must be the result of a call (a constructor)
							if _, isCall := in.Val.(*ssa.Call); !isCall {
								bad("assigned a value that is not freshly constructed in "+fn.String(), in)
							}
						}
					case *ssa.UnOp:
						if !isField(in.X) {
							continue
						}
						for _, ref := range *in.Referrers() {
							sites++
							switch r := ref.(type) {
							case *ssa.DebugRef:
								sites--
							case ssa.CallInstruction:
								cc := r.Common()
								callee := cc.StaticCallee()
								if callee == nil || len(cc.Args) == 0 || cc.Args[0] != ssa.Value(in) || callee.Signature.Recv() == nil {
									bad("value passed on in "+fn.String(), r)
									continue
								}
								for i, a := range cc.Args {
									if i > 0 && a == ssa.Value(in) {
										bad("value passed as an argument in "+fn.String(), r)
									}
								}
								if !allowed[callee.Name()] {
									bad("method "+callee.Name()+" applied in "+fn.String(), r)
								}
							case *ssa.BinOp:
								// comparison (with nil) is harmless
							default:
								bad(fmt.Sprintf("value escapes through %T in %s", ref, fn.String()), ref)
							}
						}
					}
				}
			}
		}
		if sites == 0 {
			res.Queries = append(res.Queries, &Query{Func: "directives", Ob: ob, Kind: "scan", Goal: smt.False,
				Desc: "no use of the field found: the directive is vacuous"})
		}
		res.Queries = append(res.Queries, &Query{Func: "directives", Ob: ob, Kind: "scan", Goal: smt.True,
			Desc: fmt.Sprintf("%d uses of %s.%s scanned", sites, tname, fname)})
		res.Notes = append(res.Notes, fmt.Sprintf("fieldcalls %s.%s: %d uses scanned over %d functions", tname, fname, sites, len(fns)))
	}
	return res
}
