package vc

import (
	"fmt"
	"go/types"

	"govc/smt"
	"govc/spec"
)

type LemmaDecl struct {
	L   *spec.Lemma
	Pkg *types.Package
}

// VerifyLemma turns a lemma into queries: requires |= each ensures, for arbitrary
// parameter values and an arbitrary heap.
func (p *Prog) VerifyLemma(ld *LemmaDecl) (res *FuncResult) {
	res = &FuncResult{Key: "lemma " + ld.L.Name}
	if ld.Pkg != nil {
		res.Pkg = ld.Pkg.Path()
	}
	defer func() {
		if r := recover(); r != nil {
			switch e := r.(type) {
			case unsupported:
				res.Unsupported = e.msg
			case specErr:
				res.Unsupported = "contract error: " + e.msg
			default:
				panic(r)
			}
		}
	}()
	env := &Env{T: p.T, prefix: "lemma_" + ld.L.Name}
	heap := map[string]*smt.Term{}
	sc := &scope{vars: map[string]SV{}}
	var hyps []*smt.Term
	var labs []string
	ev := &Eval{P: p, Env: env, Pkg: ld.Pkg, Heap: heap, Old: heap, Scope: sc, TParams: lemmaTParams(ld, nil), ufSeen: map[*smt.Term]int{}}
	// definitions of recursive specification functions met while evaluating (see specrec.go)
	ev.Facts = func(t *smt.Term) {
		hyps = append(hyps, t)
		labs = append(labs, "definition of a specification function / type invariant")
	}
	var inputs []NamedTerm
	paramTypes := map[string]types.Type{}
	for _, prm := range ld.L.Params {
		t := ev.ResolveType(prm.Type)
		paramTypes[prm.Name] = t
		c := flatConst("in$"+sanitize(prm.Name), p.T.SortOf(t))
		hyps = append(hyps, p.T.Inv(c, t, 0))
		labs = append(labs, "type invariant of "+prm.Name)
		sc.vars[prm.Name] = ev.FromVal(c, t)
		inputs = append(inputs, NamedTerm{Name: prm.Name, T: c, Type: t.String()})
	}
	// axioms of the package
	if ld.Pkg != nil {
		for _, ax := range p.Axioms[ld.Pkg.Path()] {
			func() {
				defer func() {
					if r := recover(); r != nil {
						if _, ok := r.(specErr); !ok {
							panic(r)
						}
					}
				}()
				ev.Pos = ax.C.Pos
				t := ev.Bool(ax.C.E)
				hyps = append(hyps, t)
				labs = append(labs, "axiom "+ax.C.Text)
				p.Assumptions["axiom ("+ax.C.Pos.String()+"): "+ax.C.Text] = true
			}()
		}
	}
	for i, r := range ld.L.Requires {
		ev.Pos = r.Pos
		hyps = append(hyps, ev.Bool(r.E))
		labs = append(labs, fmt.Sprintf("requires[%d]", i))
	}
	// lemma applications: earlier lemmas, and the lemma itself on a structurally smaller argument
	_, self := p.findLemma(ld.Pkg, ld.L.Name)
	for _, u := range ld.L.Uses {
		ev.Pos = u.Pos
		var args []SV
		for _, a := range u.Args {
			args = append(args, ev.Eval(a))
		}
		if u.Name == ld.L.Name {
			i := structuralUse(ld.L, u)
			if i < 0 {
				panic(specErr{fmt.Sprintf("%s: a lemma may use itself only on a field of one of its parameters (structural induction)", u.Pos)})
			}
			oi := p.T.OwnedOf(paramTypes[ld.L.Params[i].Name])
			if oi == nil {
				panic(specErr{fmt.Sprintf("%s: induction parameter %s is not a pointer to an owned type", u.Pos, ld.L.Params[i].Name)})
			}
			// every selector step of the argument must be applied to a non-nil node
			guard := smt.True
			a := u.Args[i]
			for {
				sel, ok := a.(*spec.Selector)
				if !ok {
					break
				}
				guard = smt.And(guard, smt.Not(oi.IsNil(ev.term(ev.Eval(sel.X)))))
				a = sel.X
			}
			hyps = append(hyps, smt.Implies(guard, p.lemmaInstance(ev, ld, args, u.Pos)))
			labs = append(labs, "induction hypothesis "+u.Text)
			continue
		}
		other, idx := p.findLemma(ld.Pkg, u.Name)
		if other == nil {
			panic(specErr{fmt.Sprintf("%s: unknown lemma %s", u.Pos, u.Name)})
		}
		if idx >= self {
			panic(specErr{fmt.Sprintf("%s: lemma %s is declared after %s (lemmas may use only earlier ones)", u.Pos, u.Name, ld.L.Name)})
		}
		hyps = append(hyps, p.lemmaInstance(ev, other, args, u.Pos))
		labs = append(labs, "lemma "+u.Text)
	}
	name := func(s string) string { return pkgShort(res.Pkg) + "." + ld.L.Name + "#" + s }
	// goals first: evaluating them adds the definitions they need to the hypotheses
	var goals []*smt.Term
	for _, e := range ld.L.Ensures {
		ev.Pos = e.Pos
		goals = append(goals, ev.Bool(e.E))
	}
	res.Queries = append(res.Queries, &Query{Func: res.Key, Ob: name("cover.requires"), Kind: "cover", Cover: true,
		Hyps: hyps, HypLabs: labs, Goal: smt.False, Desc: "lemma premises are satisfiable"})
	for i, e := range ld.L.Ensures {
		lab := fmt.Sprintf("lemma[%d]", i)
		if e.Label != "" {
			lab = "lemma." + e.Label
		}
		res.Queries = append(res.Queries, &Query{Func: res.Key, Ob: name(lab), Kind: "lemma", Hyps: hyps, HypLabs: labs,
			Goal: goals[i], Desc: "lemma " + ld.L.Name + ": " + e.Text, Inputs: inputs})
	}
	res.Paths = 1
	return res
}
