package vc

import (
	"fmt"
	"go/types"

	"govc/smt"
	"govc/spec"
)

type LemmaDecl struct {
	L   *spec.Lemma
	Pkg *types.Package
}

// VerifyLemma turns a lemma into queries: requires |= each ensures, for arbitrary
// parameter values and an arbitrary heap.
func (p *Prog) VerifyLemma(ld *LemmaDecl) (res *FuncResult) {
	res = &FuncResult{Key: "lemma " + ld.L.Name}
	if ld.Pkg != nil {
		res.Pkg = ld.Pkg.Path()
	}
	defer func() {
		if r := recover(); r != nil {
			switch e := r.(type) {
			case unsupported:
				res.Unsupported = e.msg
			case specErr:
				res.Unsupported = "contract error: " + e.msg
			default:
				panic(r)
			}
		}
	}()
	env := &Env{T: p.T, prefix: "lemma_" + ld.L.Name}
	heap := map[string]*smt.Term{}
	sc := &scope{vars: map[string]SV{}}
	ev := &Eval{P: p, Env: env, Pkg: ld.Pkg, Heap: heap, Old: heap, Scope: sc, TParams: map[string]types.Type{}}
	var hyps []*smt.Term
	var labs []string
	var inputs []NamedTerm
	for _, prm := range ld.L.Params {
		t := ev.ResolveType(prm.Type)
		c := flatConst("in$"+sanitize(prm.Name), p.T.SortOf(t))
		hyps = append(hyps, p.T.Inv(c, t, 0))
		labs = append(labs, "type invariant of "+prm.Name)
		sc.vars[prm.Name] = ev.FromVal(c, t)
		inputs = append(inputs, NamedTerm{Name: prm.Name, T: c, Type: t.String()})
	}
	for i, r := range ld.L.Requires {
		ev.Pos = r.Pos
		hyps = append(hyps, ev.Bool(r.E))
		labs = append(labs, fmt.Sprintf("requires[%d]", i))
	}
	name := func(s string) string { return pkgShort(res.Pkg) + "." + ld.L.Name + "#" + s }
	res.Queries = append(res.Queries, &Query{Func: res.Key, Ob: name("cover.requires"), Kind: "cover", Cover: true,
		Hyps: hyps, HypLabs: labs, Goal: smt.False, Desc: "lemma premises are satisfiable"})
	for i, e := range ld.L.Ensures {
		ev.Pos = e.Pos
		lab := fmt.Sprintf("lemma[%d]", i)
		if e.Label != "" {
			lab = "lemma." + e.Label
		}
		res.Queries = append(res.Queries, &Query{Func: res.Key, Ob: name(lab), Kind: "lemma", Hyps: hyps, HypLabs: labs,
			Goal: ev.Bool(e.E), Desc: "lemma " + ld.L.Name + ": " + e.Text, Inputs: inputs})
	}
	res.Paths = 1
	return res
}
