package vc

import (
	"fmt"
	"go/token"
	"go/types"

	"govc/smt"
	"govc/spec"
)

// Lemma application (`uses name(args)`): the instance  requires[args] ==> ensures[args]  of a lemma
// becomes a hypothesis. The lemma itself is proved once, for arbitrary arguments, as its own
// obligations (VerifyLemma); a lemma may use lemmas declared before it and itself on a field of one
// of its owned parameters (structural induction: the instance is guarded by "the parameter is not nil").

func (p *Prog) findLemma(pkg *types.Package, name string) (*LemmaDecl, int) {
	path := ""
	if pkg != nil {
		path = pkg.Path()
	}
	for i, ld := range p.Lemmas[path] {
		if ld.L.Name == name {
			return ld, i
		}
	}
	return nil, -1
}

// lemmaTParams resolves the type parameters of a lemma: by name in the using context, else fresh.
func lemmaTParams(ld *LemmaDecl, ctx map[string]types.Type) map[string]types.Type {
	out := map[string]types.Type{}
	for _, n := range ld.L.TParams {
		if t, ok := ctx[n]; ok {
			out[n] = t
			continue
		}
		out[n] = types.NewTypeParam(types.NewTypeName(token.NoPos, ld.Pkg, n, nil), types.Universe.Lookup("any").Type())
	}
	return out
}

// lemmaInstance builds requires ==> ensures of ld for the given arguments. base supplies the
// evaluation context (environment, fact sink, owned-handle folding).
func (p *Prog) lemmaInstance(base *Eval, ld *LemmaDecl, args []SV, pos spec.Pos) *smt.Term {
	if len(args) != len(ld.L.Params) {
		panic(specErr{fmt.Sprintf("%s: lemma %s takes %d arguments, %d given", pos, ld.L.Name, len(ld.L.Params), len(args))})
	}
	sc := &scope{vars: map[string]SV{}}
	le := &Eval{P: p, Env: base.Env, Pkg: ld.Pkg, Heap: base.Heap, Old: base.Heap, Scope: sc, TParams: lemmaTParams(ld, base.TParams),
		Facts: base.Facts, Owned: base.Owned, ufSeen: base.ufSeen, Pos: ld.L.Pos}
	for i, prm := range ld.L.Params {
		t := le.ResolveType(prm.Type)
		v := args[i]
		v = base.coerce(v, t)
		if v.T != nil && isUntypedNil(v.T) {
			v = le.nilOf(t)
		}
		if v.T == nil || base.term(v).Sort != p.T.SortOf(t) {
			panic(specErr{fmt.Sprintf("%s: argument %d of lemma %s has the wrong type (want %s)", pos, i+1, ld.L.Name, t)})
		}
		v.T = t
		sc.vars[prm.Name] = v
	}
	var req, ens []*smt.Term
	for _, r := range ld.L.Requires {
		le.Pos = r.Pos
		req = append(req, le.Bool(r.E))
	}
	for _, e := range ld.L.Ensures {
		le.Pos = e.Pos
		ens = append(ens, le.Bool(e.E))
	}
	return smt.Implies(smt.And(req...), smt.And(ens...))
}

// useLemmas assumes the lemma instances requested by the contract (arguments in the entry state).
func (x *exec) useLemmas(st *pstate) {
	for _, u := range x.c.C.Uses {
		ld, _ := x.p.findLemma(x.c.Pkg, u.Name)
		if ld == nil {
			panic(specErr{fmt.Sprintf("%s: unknown lemma %s", u.Pos, u.Name)})
		}
		ev := x.evalAt(st, x.entry)
		ev.Pos = u.Pos
		var args []SV
		for _, a := range u.Args {
			args = append(args, ev.Eval(a))
		}
		st.assume(x.p.lemmaInstance(ev, ld, args, u.Pos), "lemma "+u.Text)
		x.res.Notes = append(x.res.Notes, "uses lemma "+u.Name+" (proved as obligation lemma "+u.Name+")")
	}
}

// structuralUse: in a self-application some owned parameter is replaced by a field path of itself;
// returns the index of that parameter or -1.
func structuralUse(l *spec.Lemma, u *spec.Use) int {
	for i, p := range l.Params {
		if i >= len(u.Args) {
			break
		}
		a := u.Args[i]
		depth := 0
		for {
			s, ok := a.(*spec.Selector)
			if !ok {
				break
			}
			a = s.X
			depth++
		}
		if id, ok := a.(*spec.Ident); ok && id.Name == p.Name && depth > 0 {
			return i
		}
	}
	return -1
}
