package vc

import (
	"fmt"
	"go/types"

	"golang.org/x/tools/go/ssa"

	"govc/smt"
)

// Monitor verification (memory model M4 of DESIGN.md).
//
// For a struct declared `//@ monitor (s *T) mu guards f1, f2 ...` with invariants `inv`:
//   - lock discipline: every access to a guarded field (or to an object embedded in one) happens
//     with s.mu held; Lock is never taken twice; functions return with the lock released
//     (or still held, for `prop holdslock` helpers);
//   - at Lock the whole heap is forgotten (other goroutines may have run) and the invariants are
//     assumed; at every Unlock the invariants are proof obligations;
//   - `storerule f: e` is an obligation at every store to the guarded field f (new/old denote
//     the stored and the previous value), except in functions marked `prop forced`;
//   - blocking operations (channel receive/send, blocking select) must happen with the lock free.
// The only assumption is that sync.Mutex gives mutual exclusion; every schedule is covered because
// nothing is assumed about the shared state at Lock beyond the invariants.

type monitorInfo struct {
	recvName  string
	styp      types.Type
	muField   int
	guards    map[int]bool
	recv      *Loc
	recvT     types.Type
	holdsLock bool
	forced    bool
	invs      []monitorClause
	rules     map[string]monitorClause
}

type monitorClause struct {
	label string
	text  string
	eval  func(ev *Eval) *smt.Term
}

func hasProp(c *Contract, p string) bool {
	for _, s := range c.C.Props {
		if s == p {
			return true
		}
	}
	return false
}

func (x *exec) setupMonitor(st *pstate) {
	recv := x.fn.Signature.Recv()
	if recv == nil {
		return
	}
	pt, ok := recv.Type().(*types.Pointer)
	if !ok {
		return
	}
	named, ok := pt.Elem().(*types.Named)
	if !ok || named.Obj().Pkg() == nil {
		return
	}
	decl, ok := x.p.Monitors[named.Obj().Pkg().Path()+"."+named.Obj().Name()]
	if !ok {
		return
	}
	stt, ok := named.Underlying().(*types.Struct)
	if !ok {
		return
	}
	m := &monitorInfo{recvName: decl.Recv, styp: named, guards: map[int]bool{}, recvT: recv.Type(), rules: map[string]monitorClause{}}
	m.muField, _ = fieldIndex(stt, decl.Mu)
	if m.muField < 0 {
		panic(specErr{fmt.Sprintf("%s: monitor: no field %s", decl.Pos, decl.Mu)})
	}
	for _, g := range decl.Guards {
		fi, _ := fieldIndex(stt, g)
		if fi < 0 {
			panic(specErr{fmt.Sprintf("%s: monitor: no field %s", decl.Pos, g)})
		}
		m.guards[fi] = true
	}
	l, ok := st.vals.m[x.fn.Params[0]].(*Loc)
	if !ok {
		return
	}
	m.recv = l
	for i, c := range decl.Inv {
		c := c
		lab := c.Label
		if lab == "" {
			lab = fmt.Sprintf("inv%d", i)
		}
		m.invs = append(m.invs, monitorClause{label: lab, text: c.Text, eval: func(ev *Eval) *smt.Term { ev.Pos = c.Pos; return ev.Bool(c.E) }})
	}
	for _, c := range decl.StoreRules {
		c := c
		m.rules[c.Label] = monitorClause{label: c.Label, text: c.Text, eval: func(ev *Eval) *smt.Term { ev.Pos = c.Pos; return ev.Bool(c.E) }}
	}
	m.holdsLock = hasProp(x.c, "holdslock")
	m.forced = hasProp(x.c, "forced")
	x.monitor = m
	if m.holdsLock {
		st.held["mu"] = true
	}
	x.p.Assumptions["sync.Mutex provides mutual exclusion; at Lock nothing but the monitor invariants is known about shared memory"] = true
}

func (x *exec) monitorScope(st *pstate) *scope {
	sc := x.entry.push()
	ev := x.evalAt(st, nil)
	sc.vars[x.monitor.recvName] = ev.FromVal(x.monitor.recv, x.monitor.recvT)
	return sc
}

// isMonitorMutex: l is the mutex of the function's receiver.
func (x *exec) isMonitorMutex(l *Loc) bool {
	m := x.monitor
	return m != nil && l.Kind == LRoot && len(l.Path) == 0 && l.Ref == x.env.FieldAddr(m.styp, m.muField, m.recv.Ref)
}

// guardedLoc: l lies in a guarded field of the receiver (or in an object embedded in one).
func (x *exec) guardedLoc(l *Loc) (string, bool) {
	m := x.monitor
	if m == nil || l.Kind != LRoot {
		return "", false
	}
	stt := m.styp.Underlying().(*types.Struct)
	if l.Ref == m.recv.Ref && len(l.Path) > 0 && l.Path[0].Idx == nil && m.guards[l.Path[0].Field] {
		return stt.Field(l.Path[0].Field).Name(), true
	}
	for g := range m.guards {
		if isGoStruct(stt.Field(g).Type()) && l.Ref == x.env.FieldAddr(m.styp, g, m.recv.Ref) {
			return stt.Field(g).Name(), true
		}
	}
	return "", false
}

func (x *exec) monitorAccess(st *pstate, l *Loc, in ssa.Instruction, write bool) {
	f, ok := x.guardedLoc(l)
	if !ok {
		return
	}
	if !st.held["mu"] {
		x.emit(st, "lockset."+x.ord[in], "monitor", smt.False, in.Pos(), "guarded field "+f+" accessed without holding the lock")
	}
	if write && !x.monitor.forced {
		if rule, ok := x.monitor.rules[f]; ok {
			if s, isStore := in.(*ssa.Store); isStore && len(l.Path) == 1 {
				sc := x.monitorScope(st)
				ev := x.evalAt(st, sc)
				ft := l.Path[0].T
				sc.vars["new"] = ev.FromVal(x.val(st, s.Val), ft)
				sc.vars["old"] = ev.FromVal(x.wrap(x.load(st, l), ft), ft)
				x.emit(st, "storerule."+x.ord[in], "monitor", rule.eval(ev), in.Pos(), "store rule of "+f+": "+rule.text)
			}
		}
	}
}

func (x *exec) monitorCovers(l *Loc) *smt.Term {
	if x.monitor != nil && !x.monitor.holdsLock {
		// a method that takes the lock itself: the shared state is re-read by everybody after Lock,
		// so it is not part of the method's frame. Helpers that run with the lock held (holdslock)
		// are called in the middle of a critical section and must declare what they assign.
		return smt.True
	}
	return nil
}

func (x *exec) monitorExit(st *pstate, in ssa.Instruction) {
	m := x.monitor
	if m == nil {
		return
	}
	if m.holdsLock && !st.held["mu"] {
		x.emit(st, "return.holdslock", "monitor", smt.False, in.Pos(), "function marked holdslock returns without the lock")
	}
	if !m.holdsLock && st.held["mu"] {
		x.emit(st, "return.lockfree", "monitor", smt.False, in.Pos(), "function returns while holding the lock")
	}
}

func (x *exec) monitorCallPre(st *pstate, c *Contract, ci callInfo, args []Val, in ssa.Instruction) {
	if x.monitor == nil {
		return
	}
	need := hasProp(c, "holdslock")
	for _, a := range args {
		if l, ok := a.(*Loc); ok {
			if _, g := x.guardedLoc(l); g {
				need = true
			}
		}
	}
	if need && !st.held["mu"] {
		x.emit(st, "lockset."+x.ord[in], "monitor", smt.False, in.Pos(), "call of "+ci.name+" on guarded state without holding the lock")
	}
}

// relock: the lock has just been (re)acquired: other goroutines may have changed everything that
// is shared, and all that is known is what the monitor invariants say.
func (x *exec) relock(st *pstate) {
	cur := x.env.Next(st.heap)
	alloc := x.env.heapVar(st.heap, "allocated", BV64) // this goroutine's own allocation counter is not shared
	x.env.havocAll(st.heap)
	st.heap["allocated"] = alloc
	nv := x.env.Fresh("next$lock", smt.Int)
	st.heap["next"] = nv
	st.assume(smt.IGe(nv, cur), "allocation only grows")
	st.held["mu"] = true
	sc := x.monitorScope(st)
	for _, inv := range x.monitor.invs {
		ev := x.evalAt(st, sc)
		st.assume(inv.eval(ev), "monitor invariant "+inv.label)
	}
}

func (x *exec) monitorCallPost(st *pstate, c *Contract, ci callInfo, args []Val, in ssa.Instruction) {}

func (x *exec) monitorSpecial(st *pstate, key string, callee *ssa.Function, cc *ssa.CallCommon, args []Val, in ssa.Instruction) (Val, bool, bool) {
	switch key {
	case "sync.(*Mutex).Lock", "sync.(*Mutex).Unlock":
	case "sync.(*Cond).Signal", "sync.(*Cond).Broadcast":
		return nil, true, false // waking other goroutines does not change the modelled state
	case "sync.(*Cond).Wait":
		// Wait = Unlock; block; Lock: the invariants are due before, and all that is known after
		if x.monitor == nil {
			unsupp("sync.Cond.Wait outside of a monitor")
		}
		if !st.held["mu"] {
			x.emit(st, x.ord[in]+".held", "monitor", smt.False, in.Pos(), "Cond.Wait without holding the lock")
		}
		sc := x.monitorScope(st)
		for _, inv := range x.monitor.invs {
			ev := x.evalAt(st, sc)
			x.emit(st, x.ord[in]+".wait."+inv.label, "monitor", inv.eval(ev), in.Pos(), "monitor invariant holds when Cond.Wait releases the lock: "+inv.text)
		}
		x.relock(st)
		return nil, true, false
	default:
		return nil, false, false
	}
	l, ok := args[0].(*Loc)
	if !ok || !x.isMonitorMutex(l) {
		unsupp("%s on a mutex that is not the monitor lock of the receiver", key)
	}
	m := x.monitor
	if key == "sync.(*Mutex).Lock" {
		if st.held["mu"] {
			x.emit(st, x.ord[in]+".notheld", "monitor", smt.False, in.Pos(), "Lock while already holding the lock")
		}
		x.relock(st)
		sc := x.monitorScope(st)
		for _, lr := range x.c.C.LockRequires {
			ev := x.evalAt(st, sc)
			ev.Pos = lr.Pos
			st.assume(ev.Bool(lr.E), "caller's guarantee at lock time: "+lr.Text)
			x.p.Assumptions[fmt.Sprintf("caller obligation of %s, assumed when the lock is taken: %s", x.c.C.Key(), lr.Text)] = true
		}
		return nil, true, false
	}
	if !st.held["mu"] {
		x.emit(st, x.ord[in]+".held", "monitor", smt.False, in.Pos(), "Unlock without holding the lock")
	}
	sc := x.monitorScope(st)
	for _, inv := range m.invs {
		ev := x.evalAt(st, sc)
		x.emit(st, x.ord[in]+"."+inv.label, "monitor", inv.eval(ev), in.Pos(), "monitor invariant holds at Unlock: "+inv.text)
	}
	st.held["mu"] = false
	return nil, true, false
}
