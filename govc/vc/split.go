package vc

import (
	"context"
	"fmt"
	"os"
	"sort"
	"sync"
	"time"

	"govc/smt"
)

// Proof by cases, generated: when an obligation is not decided directly, the conditions c that
// guard hypotheses ((c => A), ite(c, x, y)) are tried as case splits. In each case the unit c (or
// not c) propagates, equalities become substitutions and comparisons of sums cancel, so that the
// sub-queries are usually trivial. All 2^k cases must be "unsat"; nothing is assumed.

func splitAtoms(as []*smt.Term, max int) []*smt.Term {
	count := map[*smt.Term]int{}
	seen := map[*smt.Term]bool{}
	var walk func(t *smt.Term, top bool)
	walk = func(t *smt.Term, top bool) {
		if t.Op == "=>" {
			c := t.Args[0]
			if c.Op == "not" {
				c = c.Args[0]
			}
			if c.Closed() && c.Op != "and" && c.Op != "or" {
				count[c] += 3
			}
		}
		if seen[t] {
			return
		}
		seen[t] = true
		if t.Op == "ite" {
			c := t.Args[0]
			if c.Op == "not" {
				c = c.Args[0]
			}
			if c.Closed() && c.Op != "and" && c.Op != "or" {
				count[c]++
			}
		}
		if t.Op == "forall" || t.Op == "exists" {
			return
		}
		for _, a := range t.Args {
			walk(a, false)
		}
	}
	for _, a := range as {
		walk(a, true)
	}
	var atoms []*smt.Term
	for c := range count {
		atoms = append(atoms, c)
	}
	sort.Slice(atoms, func(i, j int) bool {
		if count[atoms[i]] != count[atoms[j]] {
			return count[atoms[i]] > count[atoms[j]]
		}
		return atoms[i].ID() < atoms[j].ID()
	})
	if len(atoms) > max {
		atoms = atoms[:max]
	}
	return atoms
}

// trySplit returns true if every case of a split over up to 3 conditions is unsatisfiable.
func (p *Prog) trySplit(pr *prepared, cfg SolveConfig, mu *sync.Mutex, o *Outcome) bool {
	genMu.Lock()
	fresh := func(prefix string, s *smt.Sort) *smt.Term {
		pr.nfresh++
		return smt.Const(fmt.Sprintf("%s!%d", prefix, pr.nfresh), s)
	}
	rounds := 2
	if !pr.hasQ {
		rounds = 0
	}
	inst := &smt.Inst{Fresh: fresh, Rounds: rounds, NoInst: rounds == 0}
	base := smt.Propagate(smt.TightenCompares(smt.Propagate(inst.Prepare(smt.Propagate(pr.as)))))
	atoms := splitAtoms(base, 3)
	if len(atoms) == 0 {
		genMu.Unlock()
		return false
	}
	var files []string
	for mask := 0; mask < 1<<len(atoms); mask++ {
		cs := append([]*smt.Term{}, base...)
		for i, a := range atoms {
			if mask&(1<<i) != 0 {
				cs = append(cs, a)
			} else {
				cs = append(cs, smt.Not(a))
			}
		}
		cs = smt.Propagate(smt.TightenCompares(smt.Propagate(cs)))
		txt := fmt.Sprintf("; %s path %d case %d of a split over %d conditions\n", pr.q.Ob, pr.q.PathNo, mask, len(atoms)) +
			p.D.Script(cs, smt.ScriptOpts{})
		f := fmt.Sprintf("%s.case%d.smt2", pr.base, mask)
		_ = os.WriteFile(f, []byte(txt), 0o644)
		files = append(files, f)
	}
	pr.files = append(pr.files, files...)
	genMu.Unlock()
	ok := true
	total := 0.0
	for _, f := range files {
		rctx, cancel := context.WithCancel(context.Background())
		res := make(chan string, 2)
		for _, sv := range []string{"z3-new", "cvc5"} {
			go func(sv string) {
				st, _, d := runSolver(rctx, solvers[sv], f, cfg.Timeout/2+time.Second)
				mu.Lock()
				total += d
				mu.Unlock()
				if st == "unsat" {
					cancel()
				}
				res <- st
			}(sv)
		}
		a, b := <-res, <-res
		cancel()
		if a != "unsat" && b != "unsat" {
			ok = false
			break
		}
	}
	mu.Lock()
	o.Time += total
	o.Tried = append(o.Tried, fmt.Sprintf("case-split(%d conditions):%v:%.2fs", len(atoms), ok, total))
	mu.Unlock()
	return ok
}
