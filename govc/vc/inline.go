package vc

import (
	"fmt"
	"strings"

	"golang.org/x/tools/go/ssa"
)

// Inlining of callees without contract.
//
// A call to a function of the verified module that has no contract (a helper split off by a
// refactoring, a small accessor nobody wrote a contract for) is executed in place: its body becomes
// part of the paths of the function under verification, its obligations (bounds, nil, callee
// preconditions, frame) are obligations of the caller under names prefixed with the callee's name,
// and what the caller learns is exactly what the body does. Restrictions: plain functions and
// methods with a body (no closures with captured variables, no calls through interfaces), not
// recursive, nesting depth at most 4. Loops inside an inlined callee have no invariant (none can be
// written for them in the caller's contract): everything they write is forgotten.

type inlFrame struct {
	fn     *ssa.Function
	call   *ssa.Call
	block  *ssa.BasicBlock
	idx    int
	vars   map[string]Val
	defers []deferred
}

const maxInlineDepth = 4

// modulePrefix: host/org/repo of an import path ("" for standard library paths).
func modulePrefix(path string) string {
	parts := strings.Split(path, "/")
	if len(parts) < 3 || !strings.Contains(parts[0], ".") {
		return ""
	}
	return strings.Join(parts[:3], "/")
}

func (x *exec) canInline(st *pstate, callee *ssa.Function) bool {
	if callee == nil || len(callee.Blocks) == 0 || len(callee.FreeVars) > 0 || callee == x.fn {
		return false
	}
	if len(st.frames) >= maxInlineDepth {
		return false
	}
	// only functions of the module under verification (never the standard library or dependencies)
	if callee.Pkg == nil || x.fn.Pkg == nil || modulePrefix(callee.Pkg.Pkg.Path()) != modulePrefix(x.fn.Pkg.Pkg.Path()) {
		return false
	}
	for _, f := range st.frames {
		if f.fn == callee {
			return false
		}
	}
	if callee.Recover != nil {
		return false // functions that recover from panics are not inlined
	}
	return true
}

// inlineCall starts executing callee in place of the call instruction; the rest of the caller's
// block is executed when the callee returns (see inlineReturn). The path of the caller ends here.
func (x *exec) inlineCall(st *pstate, call *ssa.Call, callee *ssa.Function, args []Val) {
	if x.inlined == nil {
		x.inlined = map[*ssa.Function]bool{}
	}
	if !x.inlined[callee] {
		x.inlined[callee] = true
		k := len(x.inlined)
		x.findLoopsOf(callee, 1000*k)
		x.assignOrdinalsOf(callee, "inl."+callee.Name()+".")
		x.res.Notes = append(x.res.Notes, "call to "+FuncKey(callee)+" (no contract) is inlined")
		x.p.Assumptions["functions of the module that have no contract are inlined at their call sites (non-recursive, depth <= 4)"] = true
	}
	if len(args) != len(callee.Params) {
		unsupp("inlining %s: %d arguments for %d parameters", callee.Name(), len(args), len(callee.Params))
	}
	b := call.Block()
	idx := -1
	for i, in := range b.Instrs {
		if in == ssa.Instruction(call) {
			idx = i
		}
	}
	if idx < 0 {
		unsupp("inlining %s: call instruction not found in its block", callee.Name())
	}
	fr := &inlFrame{fn: callee, call: call, block: b, idx: idx, vars: st.vars, defers: st.defers}
	st.frames = append(append([]*inlFrame{}, st.frames...), fr)
	st.vars = map[string]Val{}
	st.defers = nil
	for i, prm := range callee.Params {
		st.vals.m[prm] = args[i]
		st.vars[prm.Name()] = tval{args[i], prm.Type()}
	}
	st.trace = append(st.trace, "inl:"+callee.Name())
	x.blockFrom(st, callee.Blocks[0], nil, 0)
}

// inlineReturn continues the caller after an inlined callee returned.
func (x *exec) inlineReturn(st *pstate, ret *ssa.Return) {
	fr := st.frames[len(st.frames)-1]
	st.frames = st.frames[:len(st.frames)-1]
	switch len(ret.Results) {
	case 0:
	case 1:
		x.set(st, fr.call, x.val(st, ret.Results[0]))
	default:
		var tup Tuple
		for _, r := range ret.Results {
			tup = append(tup, x.val(st, r))
		}
		x.set(st, fr.call, tup)
	}
	vars := make(map[string]Val, len(fr.vars))
	for k, v := range fr.vars {
		vars[k] = v
	}
	st.vars = vars
	st.defers = append([]deferred{}, fr.defers...)
	st.trace = append(st.trace, fmt.Sprintf("ret:%s", fr.fn.Name()))
	x.blockFrom(st, fr.block, nil, fr.idx+1)
}
