package smt

import "math/big"

// Comparison tightening. Bit-vector comparisons between sums that share summands
// (off+len+8+k < off+len+8) are hard for bit-blasting solvers although they are trivial
// once one knows that neither side wraps. Upper bounds of atoms are read off the unit
// hypotheses of the query itself (slice/string type invariants bound every length, capacity
// and offset by 2^48); a comparison whose two sides provably stay below 2^w (2^(w-1) for
// signed comparisons) is equivalent to the comparison of the mathematical sums, in which
// common summands cancel. The rewriting is an equivalence under the hypotheses that stay
// in the query, so it is sound for both "unsat" and "sat" answers.

type boundEnv struct {
	ub map[*Term]*big.Int
}

func collectBounds(as []*Term) *boundEnv {
	be := &boundEnv{ub: map[*Term]*big.Int{}}
	set := func(t *Term, b *big.Int) bool {
		if t.IsLit() {
			return false
		}
		if cur, ok := be.ub[t]; ok && cur.Cmp(b) <= 0 {
			return false
		}
		be.ub[t] = b
		return true
	}
	nonneg := map[*Term]bool{}
	for _, a := range as {
		if a.Op == "not" && a.Args[0].Op == "bvslt" && a.Args[0].Args[1].IsLit() && a.Args[0].Args[1].Val.Sign() == 0 {
			nonneg[a.Args[0].Args[0]] = true // not (t <s 0)
		}
	}
	for iter := 0; iter < 4; iter++ {
		changed := false
		for _, a := range as {
			switch {
			case a.Op == "not" && a.Args[0].Op == "bvult":
				// not (x <u y): y <= x
				x, y := a.Args[0].Args[0], a.Args[0].Args[1]
				if bx, ok := be.upper(x); ok && set(y, bx) {
					changed = true
				}
			case a.Op == "bvult":
				// x <u y: x <= ub(y) - 1
				x, y := a.Args[0], a.Args[1]
				if by, ok := be.upper(y); ok && by.Sign() > 0 && set(x, new(big.Int).Sub(by, big.NewInt(1))) {
					changed = true
				}
			case a.Op == "bvslt" && nonneg[a.Args[0]]:
				x, y := a.Args[0], a.Args[1]
				if y.IsLit() && y.Signed().Sign() > 0 && set(x, new(big.Int).Sub(y.Signed(), big.NewInt(1))) {
					changed = true
				}
			case a.Op == "not" && a.Args[0].Op == "bvslt" && nonneg[a.Args[0].Args[1]]:
				// not (x <s y) with y >= 0 and x a non-negative literal: y <= x
				x, y := a.Args[0].Args[0], a.Args[0].Args[1]
				if x.IsLit() && x.Signed().Sign() >= 0 && set(y, x.Signed()) {
					changed = true
				}
			case a.Op == "=" && a.Args[0].Sort.Kind == KBV:
				x, y := a.Args[0], a.Args[1]
				if by, ok := be.upper(y); ok && !x.IsLit() && set(x, by) {
					changed = true
				}
				if bx, ok := be.upper(x); ok && !y.IsLit() && set(y, bx) {
					changed = true
				}
			}
		}
		if !changed {
			break
		}
	}
	return be
}

// upper returns an upper bound of the unsigned value of t, if one is known.
func (be *boundEnv) upper(t *Term) (*big.Int, bool) {
	if t.IsLit() {
		return t.Val, true
	}
	if b, ok := be.ub[t]; ok {
		return b, true
	}
	if t.Sort.Kind != KBV {
		return nil, false
	}
	w := t.Sort.W
	switch t.Op {
	case "zero_extend":
		if b, ok := be.upper(t.Args[0]); ok {
			return b, true
		}
		return mask(t.Args[0].Sort.W), true
	case "bvand":
		// x & c <= c
		for _, a := range t.Args {
			if a.IsLit() {
				return a.Val, true
			}
		}
	case "ite":
		b1, ok1 := be.upper(t.Args[1])
		b2, ok2 := be.upper(t.Args[2])
		if ok1 && ok2 {
			if b1.Cmp(b2) > 0 {
				return b1, true
			}
			return b2, true
		}
	case "bvadd", "bvmul", "bvsub":
		l := newLin(w)
		l.add(t, big.NewInt(1))
		if _, self := l.coef[t]; self {
			return nil, false // t is its own atom (e.g. a product of two variables)
		}
		if m, ok := be.maxLin(l); ok && m.Cmp(mask(w)) <= 0 {
			return m, true
		}
	}
	return nil, false
}

// maxLin: maximum of the mathematical value c + sum k_i*a_i, if every coefficient is
// "small positive" and every atom is bounded.
func (be *boundEnv) maxLin(l *linForm) (*big.Int, bool) {
	half := new(big.Int).Lsh(big.NewInt(1), uint(l.w-1))
	if l.c.Cmp(half) >= 0 {
		return nil, false
	}
	m := new(big.Int).Set(l.c)
	for a, k := range l.coef {
		if k.Cmp(half) >= 0 {
			return nil, false
		}
		b, ok := be.upper(a)
		if !ok {
			return nil, false
		}
		m.Add(m, new(big.Int).Mul(k, b))
	}
	return m, true
}

// TightenCompares rewrites comparisons as described above.
func TightenCompares(as []*Term) []*Term {
	be := collectBounds(as)
	if len(be.ub) == 0 {
		return as
	}
	memo := map[*Term]*Term{}
	var rw func(t *Term) *Term
	rw = func(t *Term) *Term {
		if len(t.Args) == 0 {
			return t
		}
		if r, ok := memo[t]; ok {
			return r
		}
		var r *Term
		switch t.Op {
		case "forall", "exists":
			body := rw(t.Args[0])
			if body == t.Args[0] {
				r = t
			} else {
				r = quant(t.Op, t.Bound, body, t.Pat...)
			}
		default:
			changed := false
			args := make([]*Term, len(t.Args))
			for i, a := range t.Args {
				args[i] = rw(a)
				if args[i] != a {
					changed = true
				}
			}
			r = t
			if changed {
				r = Rebuild(t, args)
			}
			if r.Op == "bvult" || r.Op == "bvslt" {
				r = be.cancel(r)
			}
		}
		memo[t] = r
		return r
	}
	out := make([]*Term, len(as))
	for i, a := range as {
		// the unit facts that carry the bounds are kept as they are
		if isBoundFact(a) {
			out[i] = a
			continue
		}
		out[i] = rw(a)
	}
	return out
}

func isBoundFact(a *Term) bool {
	if a.Op == "not" {
		a = a.Args[0]
	}
	if a.Op != "bvult" && a.Op != "bvslt" {
		return false
	}
	return a.Args[0].IsLit() || a.Args[1].IsLit()
}

func (be *boundEnv) cancel(t *Term) *Term {
	x, y := t.Args[0], t.Args[1]
	w := x.Sort.W
	lx, ly := newLin(w), newLin(w)
	lx.add(x, big.NewInt(1))
	ly.add(y, big.NewInt(1))
	// anything in common?
	common := false
	for a := range lx.coef {
		if _, ok := ly.coef[a]; ok {
			common = true
			break
		}
	}
	if !common && (lx.c.Sign() == 0 || ly.c.Sign() == 0) {
		return t
	}
	mx, ok1 := be.maxLin(lx)
	my, ok2 := be.maxLin(ly)
	if !ok1 || !ok2 {
		return t
	}
	limit := new(big.Int).Lsh(big.NewInt(1), uint(w))
	if t.Op == "bvslt" {
		limit = new(big.Int).Lsh(big.NewInt(1), uint(w-1))
	}
	if mx.Cmp(limit) >= 0 || my.Cmp(limit) >= 0 {
		return t
	}
	// cancel
	for a, kx := range lx.coef {
		ky, ok := ly.coef[a]
		if !ok {
			continue
		}
		m := kx
		if ky.Cmp(m) < 0 {
			m = ky
		}
		m = new(big.Int).Set(m)
		lx.addAtom(a, new(big.Int).Neg(m))
		ly.addAtom(a, new(big.Int).Neg(m))
	}
	mc := lx.c
	if ly.c.Cmp(mc) < 0 {
		mc = ly.c
	}
	mc = new(big.Int).Set(mc)
	lx.c = new(big.Int).Sub(lx.c, mc)
	ly.c = new(big.Int).Sub(ly.c, mc)
	nx, ny := lx.term(), ly.term()
	if nx == x && ny == y {
		return t
	}
	// after cancellation both sides are still non-wrapping sums of non-negative parts, so the
	// unsigned comparison is the right one for both operators
	return bvcmp("bvult", nx, ny)
}
