package smt

import (
	"fmt"
	"math/big"
)

// Integer encoding of bit-vector queries (a second, independent encoding raced with the
// bit-vector one). Every bit-vector term t of width w is mapped to an integer term [t] with
// 0 <= [t] < 2^w; arithmetic becomes linear integer arithmetic with an explicit `mod 2^w`
// wherever wrap-around cannot be excluded by the interval analysis of bounds.go. Operations
// that have no linear integer counterpart (bitwise operations on two non-constant operands,
// multiplication of two variables, shifts by a variable) become uninterpreted functions over
// the integers. Uninterpreted functions only forget facts, so the encoding is a sound
// abstraction: "unsat" of the integer query implies "unsat" of the bit-vector query.
// A "sat" answer of the integer query is NOT a counterexample and is never used as one.
//
// Arrays indexed by bit-vectors become arrays indexed by integers (the index map is injective),
// bit-vector elements become integers. Datatype values that contain bit-vector fields are kept
// in the bit-vector world and crossed by the conversion functions b2i$w / i2b$w, which are
// uninterpreted apart from b2i(i2b(x)) = x for x in range and the range of b2i.

type intEnc struct {
	memo    map[*Term]*Term
	side    []*Term // range constraints of constants and conversion axioms
	decls   *Decls
	be      *boundEnv
	sideSet map[string]bool
	n       int
}

func pow2(w int) *big.Int { return new(big.Int).Lsh(big.NewInt(1), uint(w)) }

func intLitBig(v *big.Int) *Term {
	return mkFull("intlit", Int, "", 0, 0, new(big.Int).Set(v), nil, nil, nil)
}

func imod(a *Term, m *big.Int) *Term {
	if a.IsLit() {
		return intLitBig(new(big.Int).Mod(a.Val, m))
	}
	return mk("mod", Int, a, intLitBig(m))
}

func idiv(a *Term, m *big.Int) *Term {
	if a.IsLit() {
		q := new(big.Int)
		r := new(big.Int)
		q.DivMod(a.Val, m, r) // Euclidean for positive m
		return intLitBig(q)
	}
	return mk("div", Int, a, intLitBig(m))
}

func intSort(s *Sort) *Sort {
	switch s.Kind {
	case KBV:
		return Int
	case KArray:
		return Array(intSort(s.Dom), intSort(s.Rng))
	}
	return s
}

// ToInt converts a conjunction of assertions. ok is false if the query contains something the
// encoding does not handle (the caller then simply does not use this encoding).
func ToInt(d *Decls, as []*Term) (out []*Term, ok bool) {
	defer func() {
		if r := recover(); r != nil {
			if _, is := r.(intUnsupported); is {
				out, ok = nil, false
				return
			}
			panic(r)
		}
	}()
	e := &intEnc{memo: map[*Term]*Term{}, decls: d, be: collectBounds(flattenAnd(as)), sideSet: map[string]bool{}}
	for _, a := range as {
		out = append(out, e.conv(a))
	}
	out = append(out, e.side...)
	return out, true
}

type intUnsupported struct{ what string }

func (e *intEnc) addSide(key string, t *Term) {
	if e.sideSet[key] {
		return
	}
	e.sideSet[key] = true
	e.side = append(e.side, t)
}

func (e *intEnc) inRange(t *Term, w int, key string) {
	e.addSide("rng:"+key, And(mk("<=", Bool, IntLit(0), t), mk("<", Bool, t, intLitBig(pow2(w)))))
}

func (e *intEnc) uf(name string, rng *Sort, args ...*Term) *Term {
	var as []*Sort
	for _, a := range args {
		as = append(as, a.Sort)
	}
	e.decls.AddFunc(name, rng, as...)
	return App(name, rng, args...)
}

// signed value of an unsigned integer image
func signedOf(x *Term, w int) *Term {
	half := intLitBig(pow2(w - 1))
	return Ite(mk(">=", Bool, x, half), mk("-", Int, x, intLitBig(pow2(w))), x)
}

func (e *intEnc) conv(t *Term) *Term {
	if r, ok := e.memo[t]; ok {
		return r
	}
	r := e.conv1(t)
	e.memo[t] = r
	return r
}

func (e *intEnc) convArgs(t *Term) []*Term {
	out := make([]*Term, len(t.Args))
	for i, a := range t.Args {
		out[i] = e.conv(a)
	}
	return out
}

// noWrap: the mathematical value of the bit-vector sum t is below 2^w (by interval analysis).
func (e *intEnc) noWrap(t *Term) bool {
	l := newLin(t.Sort.W)
	l.add(t, big.NewInt(1))
	if _, self := l.coef[t]; self {
		return false
	}
	m, ok := e.be.maxLin(l)
	return ok && m.Cmp(pow2(t.Sort.W)) < 0
}

func (e *intEnc) conv1(t *Term) *Term {
	switch t.Op {
	case "true", "false", "intlit":
		return t
	case "bvlit":
		return intLitBig(t.Val)
	case "const":
		if t.Sort.Kind == KBV {
			c := Const(t.Name+"$i", Int)
			e.inRange(c, t.Sort.W, t.Name)
			return c
		}
		if t.Sort.Kind == KArray {
			return Const(t.Name+"$i", intSort(t.Sort))
		}
		return t
	case "bvar":
		if t.Sort.Kind == KBV {
			return BVar(t.Name, Int)
		}
		if t.Sort.Kind == KArray {
			return BVar(t.Name, intSort(t.Sort))
		}
		return t
	case "not":
		return Not(e.conv(t.Args[0]))
	case "and":
		return And(e.convArgs(t)...)
	case "or":
		return Or(e.convArgs(t)...)
	case "=>":
		a := e.convArgs(t)
		return Implies(a[0], a[1])
	case "ite":
		a := e.convArgs(t)
		return Ite(a[0], a[1], a[2])
	case "=":
		a := e.convArgs(t)
		return Eq(a[0], a[1])
	case "distinct":
		return Distinct(e.convArgs(t)...)
	case "+", "-", "*":
		a := e.convArgs(t)
		return intbin(t.Op, a[0], a[1])
	case "<", "<=", ">", ">=":
		a := e.convArgs(t)
		return intcmp(t.Op, a[0], a[1])
	case "select":
		a := e.convArgs(t)
		return Select(a[0], a[1])
	case "store":
		a := e.convArgs(t)
		return Store(a[0], a[1], a[2])
	case "constarr":
		return ConstArray(intSort(t.Sort), e.conv(t.Args[0]))
	case "forall", "exists":
		var vars []*Term
		var guards []*Term
		for _, b := range t.Bound {
			nb := e.conv(b)
			vars = append(vars, nb)
			if b.Sort.Kind == KBV {
				guards = append(guards, mk("<=", Bool, IntLit(0), nb), mk("<", Bool, nb, intLitBig(pow2(b.Sort.W))))
			}
		}
		body := e.conv(t.Args[0])
		var pats []*Term
		for _, p := range t.Pat {
			pats = append(pats, e.conv(p))
		}
		if t.Op == "forall" {
			return quant("forall", vars, Implies(And(guards...), body), pats...)
		}
		return quant("exists", vars, And(append(guards, body)...))
	}
	if t.Sort.Kind == KBV {
		return e.convBV(t)
	}
	switch t.Op {
	case "bvult", "bvslt":
		a := e.convArgs(t)
		w := t.Args[0].Sort.W
		if t.Op == "bvult" {
			return mk("<", Bool, a[0], a[1])
		}
		return mk("<", Bool, signedOf(a[0], w), signedOf(a[1], w))
	case "bvule", "bvsle", "bvugt", "bvsgt", "bvuge", "bvsge":
		// not produced by the constructors (canonical form is strict less-than), handled for completeness
		a := e.convArgs(t)
		w := t.Args[0].Sort.W
		x, y := a[0], a[1]
		if t.Op[2] == 's' {
			x, y = signedOf(x, w), signedOf(y, w)
		}
		switch t.Op[3:] {
		case "le":
			return mk("<=", Bool, x, y)
		case "gt":
			return mk(">", Bool, x, y)
		default:
			return mk(">=", Bool, x, y)
		}
	case "app":
		return e.convApp(t)
	case "ctor", "acc", "is":
		return e.convData(t)
	}
	panic(intUnsupported{t.Op})
}

func (e *intEnc) convBV(t *Term) *Term {
	w := t.Sort.W
	m := pow2(w)
	switch t.Op {
	case "bvadd":
		a := e.convArgs(t)
		s := mk("+", Int, a[0], a[1])
		if e.noWrap(t) {
			return s
		}
		return imod(s, m)
	case "bvsub":
		a := e.convArgs(t)
		return imod(mk("-", Int, a[0], a[1]), m)
	case "bvneg":
		return imod(mk("-", Int, IntLit(0), e.conv(t.Args[0])), m)
	case "bvmul":
		if t.Args[0].IsLit() || t.Args[1].IsLit() {
			a := e.convArgs(t)
			p := mk("*", Int, a[0], a[1])
			if e.noWrap(t) {
				return p
			}
			return imod(p, m)
		}
	case "bvudiv":
		if t.Args[1].IsLit() && t.Args[1].Val.Sign() > 0 {
			return idiv(e.conv(t.Args[0]), t.Args[1].Val)
		}
	case "bvurem":
		if t.Args[1].IsLit() && t.Args[1].Val.Sign() > 0 {
			return imod(e.conv(t.Args[0]), t.Args[1].Val)
		}
	case "bvand":
		for i := 0; i < 2; i++ {
			if c := t.Args[i]; c.IsLit() {
				// mask 2^k - 1
				k := new(big.Int).Add(c.Val, big.NewInt(1))
				if k.Sign() > 0 && new(big.Int).And(k, c.Val).Sign() == 0 {
					return imod(e.conv(t.Args[1-i]), k)
				}
			}
		}
	case "bvshl":
		if c := t.Args[1]; c.IsLit() {
			if c.Val.Cmp(big.NewInt(int64(w))) >= 0 {
				return IntLit(0)
			}
			return imod(mk("*", Int, e.conv(t.Args[0]), intLitBig(pow2(int(c.Val.Int64())))), m)
		}
	case "bvlshr":
		if c := t.Args[1]; c.IsLit() {
			if c.Val.Cmp(big.NewInt(int64(w))) >= 0 {
				return IntLit(0)
			}
			return idiv(e.conv(t.Args[0]), pow2(int(c.Val.Int64())))
		}
	case "bvashr":
		if c := t.Args[1]; c.IsLit() {
			k := int(c.Val.Int64())
			if c.Val.Cmp(big.NewInt(int64(w))) >= 0 {
				k = w - 1
			}
			return imod(idiv(signedOf(e.conv(t.Args[0]), w), pow2(k)), m)
		}
	case "bvnot":
		return mk("-", Int, intLitBig(new(big.Int).Sub(m, big.NewInt(1))), e.conv(t.Args[0]))
	case "extract":
		return imod(idiv(e.conv(t.Args[0]), pow2(t.J)), pow2(t.I-t.J+1))
	case "zero_extend":
		return e.conv(t.Args[0])
	case "sign_extend":
		x := e.conv(t.Args[0])
		w0 := t.Args[0].Sort.W
		return Ite(mk(">=", Bool, x, intLitBig(pow2(w0-1))), mk("+", Int, x, intLitBig(new(big.Int).Sub(m, pow2(w0)))), x)
	case "concat":
		a := e.convArgs(t)
		return mk("+", Int, mk("*", Int, a[0], intLitBig(pow2(t.Args[1].Sort.W))), a[1])
	case "ite":
		a := e.convArgs(t)
		return Ite(a[0], a[1], a[2])
	case "select":
		a := e.convArgs(t)
		return Select(a[0], a[1])
	case "app":
		return e.convApp(t)
	case "acc":
		return e.convData(t)
	}
	// anything else: an uninterpreted integer function of the converted operands, within range
	switch t.Op {
	case "bvand", "bvor", "bvxor", "bvshl", "bvlshr", "bvashr", "bvmul", "bvudiv", "bvurem", "bvsdiv", "bvsrem", "bvnot":
		a := e.convArgs(t)
		r := e.uf(fmt.Sprintf("%s$i%d", t.Op, w), Int, a...)
		e.inRange(r, w, fmt.Sprintf("uf:%d", t.id))
		return r
	}
	panic(intUnsupported{t.Op})
}

// convApp: uninterpreted functions get an integer-sorted twin.
func (e *intEnc) convApp(t *Term) *Term {
	a := e.convArgs(t)
	rs := intSort(t.Sort)
	name := t.Name
	changed := rs != t.Sort
	for i := range a {
		if a[i].Sort != t.Args[i].Sort {
			changed = true
		}
	}
	if changed {
		name += "$i"
	}
	r := e.uf(name, rs, a...)
	if t.Sort.Kind == KBV {
		e.inRange(r, t.Sort.W, fmt.Sprintf("app:%d", t.id))
	}
	return r
}

// convData: datatype terms stay in the bit-vector world; fields of bit-vector sort cross the border
// through b2i$w (bit-vector -> integer) and i2b$w (integer -> bit-vector).
func (e *intEnc) b2i(x *Term) *Term {
	w := x.Sort.W
	r := e.uf(fmt.Sprintf("b2i$%d", w), Int, x)
	e.inRange(r, w, fmt.Sprintf("b2i:%d", x.id))
	return r
}

func (e *intEnc) i2b(x *Term, w int) *Term {
	r := e.uf(fmt.Sprintf("i2b$%d", w), BV(w), x)
	// b2i(i2b(x)) = x for the values that occur (x is in range by construction)
	e.addSide(fmt.Sprintf("inv:%d:%d", w, x.id), Eq(e.uf(fmt.Sprintf("b2i$%d", w), Int, r), x))
	return r
}

func (e *intEnc) convData(t *Term) *Term {
	switch t.Op {
	case "ctor":
		args := make([]*Term, len(t.Args))
		for i, a := range t.Args {
			c := e.conv(a)
			switch {
			case a.Sort.Kind == KBV:
				c = e.i2b(c, a.Sort.W)
			case a.Sort.Kind == KArray && intSort(a.Sort) != a.Sort:
				panic(intUnsupported{"array inside datatype"})
			}
			args[i] = c
		}
		return mkFull("ctor", t.Sort, t.Name, 0, 0, nil, args, nil, nil)
	case "acc":
		inner := e.conv(t.Args[0])
		r := mkFull("acc", t.Sort, t.Name, 0, 0, nil, []*Term{inner}, nil, nil)
		switch {
		case t.Sort.Kind == KBV:
			return e.b2i(r)
		case t.Sort.Kind == KArray && intSort(t.Sort) != t.Sort:
			panic(intUnsupported{"array inside datatype"})
		}
		return r
	case "is":
		return mkFull("is", Bool, t.Name, 0, 0, nil, []*Term{e.conv(t.Args[0])}, nil, nil)
	}
	panic(intUnsupported{t.Op})
}
