package smt

import (
	"math/big"
	"sort"
)

// Linear normal form for bit-vector sums: c + sum(k_i * a_i) modulo 2^w, atoms ordered by
// creation id. Keeps index terms such as off' + ((off + x) - off') in the canonical form off + x,
// which is what makes generator-side quantifier instantiation converge.

type linForm struct {
	w    int
	c    *big.Int
	coef map[*Term]*big.Int
}

func newLin(w int) *linForm { return &linForm{w: w, c: new(big.Int), coef: map[*Term]*big.Int{}} }

func (l *linForm) addAtom(a *Term, k *big.Int) {
	cur, ok := l.coef[a]
	if !ok {
		cur = new(big.Int)
	}
	n := new(big.Int).Add(cur, k)
	n.And(n, mask(l.w))
	if n.Sign() == 0 {
		delete(l.coef, a)
	} else {
		l.coef[a] = n
	}
}

func (l *linForm) add(t *Term, k *big.Int) {
	switch t.Op {
	case "bvlit":
		l.c.Add(l.c, new(big.Int).Mul(t.Val, k))
		l.c.And(l.c, mask(l.w))
	case "bvadd":
		l.add(t.Args[0], k)
		l.add(t.Args[1], k)
	case "bvsub":
		l.add(t.Args[0], k)
		l.add(t.Args[1], new(big.Int).Neg(k))
	case "bvneg":
		l.add(t.Args[0], new(big.Int).Neg(k))
	case "bvmul":
		if t.Args[0].Op == "bvlit" {
			l.add(t.Args[1], new(big.Int).Mul(k, t.Args[0].Val))
			return
		}
		if t.Args[1].Op == "bvlit" {
			l.add(t.Args[0], new(big.Int).Mul(k, t.Args[1].Val))
			return
		}
		l.addAtom(t, k)
	default:
		l.addAtom(t, k)
	}
}

func (l *linForm) term() *Term {
	w := l.w
	atoms := make([]*Term, 0, len(l.coef))
	for a := range l.coef {
		atoms = append(atoms, a)
	}
	sort.Slice(atoms, func(i, j int) bool { return atoms[i].id < atoms[j].id })
	half := new(big.Int).Lsh(big.NewInt(1), uint(w-1))
	var acc *Term
	var negs []*Term
	scaled := func(a *Term, k *big.Int) *Term {
		if k.Cmp(big.NewInt(1)) == 0 {
			return a
		}
		return mk("bvmul", a.Sort, BVLit(k, w), a)
	}
	for _, a := range atoms {
		k := l.coef[a]
		if k.Cmp(half) >= 0 {
			nk := new(big.Int).Sub(new(big.Int).Lsh(big.NewInt(1), uint(w)), k)
			negs = append(negs, scaled(a, nk))
			continue
		}
		t := scaled(a, k)
		if acc == nil {
			acc = t
		} else {
			acc = mk("bvadd", t.Sort, acc, t)
		}
	}
	if acc == nil {
		if len(negs) == 0 {
			return BVLit(l.c, w)
		}
		acc = BVLit(l.c, w)
		for _, n := range negs {
			acc = mk("bvsub", n.Sort, acc, n)
		}
		return acc
	}
	for _, n := range negs {
		acc = mk("bvsub", n.Sort, acc, n)
	}
	if l.c.Sign() != 0 {
		if l.c.Cmp(half) >= 0 {
			nc := new(big.Int).Sub(new(big.Int).Lsh(big.NewInt(1), uint(w)), l.c)
			acc = mk("bvsub", acc.Sort, acc, BVLit(nc, w))
		} else {
			acc = mk("bvadd", acc.Sort, acc, BVLit(l.c, w))
		}
	}
	return acc
}

func linNorm(op string, a, b *Term) *Term {
	l := newLin(a.Sort.W)
	one := big.NewInt(1)
	l.add(a, one)
	if op == "bvadd" {
		l.add(b, one)
	} else {
		l.add(b, big.NewInt(-1))
	}
	return l.term()
}

func linNeg(a *Term) *Term {
	l := newLin(a.Sort.W)
	l.add(a, big.NewInt(-1))
	return l.term()
}
