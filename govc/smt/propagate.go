package smt

import "sort"

// Unit propagation at the term level: top-level facts of the form `atom`, `not atom`
// and `t = literal` are substituted into the other assertions. Sound (equivalence
// preserving) and it lets the constructors fold case splits such as
// ite(l <= 253, 1, ...) under the hypothesis l <= 253.

// Replace rewrites occurrences (by identity) of the keys of m.
func Replace(t *Term, m map[*Term]*Term) *Term {
	memo := map[*Term]*Term{}
	return replace(t, m, memo)
}

func replace(t *Term, m map[*Term]*Term, memo map[*Term]*Term) *Term {
	if r, ok := m[t]; ok {
		return r
	}
	if len(t.Args) == 0 {
		return t
	}
	if r, ok := memo[t]; ok {
		return r
	}
	var r *Term
	switch t.Op {
	case "forall", "exists":
		body := replace(t.Args[0], m, memo)
		if body == t.Args[0] {
			r = t
		} else {
			r = quant(t.Op, t.Bound, body, t.Pat...)
		}
	default:
		changed := false
		args := make([]*Term, len(t.Args))
		for i, a := range t.Args {
			args[i] = replace(a, m, memo)
			if args[i] != a {
				changed = true
			}
		}
		if changed {
			r = Rebuild(t, args)
		} else {
			r = t
		}
	}
	memo[t] = r
	return r
}

func flattenAnd(as []*Term) []*Term {
	var out []*Term
	var fl func(t *Term)
	fl = func(t *Term) {
		if t.Op == "and" {
			for _, a := range t.Args {
				fl(a)
			}
		} else if t.Op == "not" && t.Args[0].Op == "=>" {
			fl(t.Args[0].Args[0])
			fl(Not(t.Args[0].Args[1]))
		} else if t.Op == "not" && t.Args[0].Op == "or" {
			for _, a := range t.Args[0].Args {
				fl(Not(a))
			}
		} else if !t.IsTrue() {
			out = append(out, t)
		}
	}
	for _, a := range as {
		fl(a)
	}
	return out
}

// hoistCommon: from (c => A) and (not c => B), every conjunct common to A and B holds unconditionally.
func hoistCommon(as []*Term) []*Term {
	byCond := map[*Term][]*Term{}
	for _, a := range as {
		if a.Op == "=>" {
			byCond[a.Args[0]] = append(byCond[a.Args[0]], a.Args[1])
		}
	}
	conj := func(ts []*Term) map[*Term]bool {
		m := map[*Term]bool{}
		for _, t := range flattenAnd(ts) {
			m[t] = true
		}
		return m
	}
	seen := map[*Term]bool{}
	var hoisted []*Term
	for c, pos := range byCond {
		neg, ok := byCond[Not(c)]
		if !ok || seen[c] {
			continue
		}
		seen[c], seen[Not(c)] = true, true
		a, b := conj(pos), conj(neg)
		for t := range a {
			if b[t] {
				hoisted = append(hoisted, t)
			}
		}
	}
	sort.Slice(hoisted, func(i, j int) bool { return hoisted[i].id < hoisted[j].id })
	return append(as, hoisted...)
}

// tighten: from a < b and not (a+1 < b) (signed, same width) the value of b is a+1. The equality is
// added as a fact; when b is an input-like constant (the index a goal quantifies over, made a constant)
// the substitution below then puts index terms into one shape, and the congruence of array reads at
// `off + b` and `off + a + 1` needs no bit-level reasoning.
func tighten(as []*Term) []*Term {
	type pair struct{ a, b *Term }
	lt := map[pair]bool{}
	for _, t := range as {
		if t.Op == "bvslt" {
			lt[pair{t.Args[0], t.Args[1]}] = true
		}
	}
	out := as
	have := map[*Term]bool{}
	for _, t := range as {
		have[t] = true
	}
	// a < b+1 gives a < b or a = b (valid for every a, b also when b+1 wraps: then a < b+1 is
	// false). Stated as a clause so that the case split an invariant `forall k :: lo <= k < i` needs
	// at `i+1` is propositional instead of a bit-level derivation.
	for _, t := range as {
		// likewise a <= b+1, written not (b+1 < a), gives a <= b or a = b+1 (if b+1 wraps to the
		// smallest number, a <= b+1 means a = b+1)
		if t.Op == "not" && t.Args[0].Op == "bvslt" {
			c, a := t.Args[0].Args[0], t.Args[0].Args[1]
			if c.Op == "bvadd" && len(c.Args) == 2 {
				one := BVLitI(1, c.Sort.W)
				var b *Term
				if c.Args[1] == one {
					b = c.Args[0]
				} else if c.Args[0] == one {
					b = c.Args[1]
				}
				if b != nil {
					cl := Or(Not(BVSlt(b, a)), Eq(a, c))
					if !have[cl] && !cl.IsTrue() {
						have[cl] = true
						out = append(out, cl)
					}
				}
			}
			continue
		}
		if t.Op != "bvslt" {
			continue
		}
		a, c := t.Args[0], t.Args[1]
		if c.Op != "bvadd" || len(c.Args) != 2 {
			continue
		}
		var b *Term
		one := BVLitI(1, c.Sort.W)
		switch {
		case c.Args[1] == one:
			b = c.Args[0]
		case c.Args[0] == one:
			b = c.Args[1]
		default:
			continue
		}
		cl := Or(BVSlt(a, b), Eq(a, b))
		if !have[cl] && !cl.IsTrue() {
			have[cl] = true
			out = append(out, cl)
		}
	}
	for _, t := range as {
		if t.Op != "not" || t.Args[0].Op != "bvslt" {
			continue
		}
		c, b := t.Args[0].Args[0], t.Args[0].Args[1]
		for p := range lt {
			if p.b != b || p.a.Sort != c.Sort {
				continue
			}
			if BVAdd(p.a, BVLitI(1, p.a.Sort.W)) == c {
				eq := Eq(b, c)
				if !have[eq] {
					have[eq] = true
					out = append(out, eq)
				}
			}
		}
	}
	return out
}

func Propagate(as []*Term) []*Term {
	cur := tighten(hoistCommon(flattenAnd(as)))
	for iter := 0; iter < 8; iter++ {
		facts := map[*Term]*Term{}
		unit := map[*Term]*Term{} // unit assertion -> the key it contributes to facts
		for _, a := range cur {
			switch {
			case a.Op == "not" && a.Args[0].Closed() && a.Args[0].Op != "forall" && a.Args[0].Op != "exists":
				if _, dup := facts[a.Args[0]]; !dup {
					facts[a.Args[0]] = False
					unit[a] = a.Args[0]
				}
			case a.Op == "=" && a.Args[1].IsLit() && !a.Args[0].IsLit() && a.Args[0].Closed():
				if _, dup := facts[a.Args[0]]; !dup {
					facts[a.Args[0]] = a.Args[1]
					unit[a] = a.Args[0]
				}
			case a.Op == "=" && a.Args[0].IsLit() && !a.Args[1].IsLit() && a.Args[1].Closed():
				if _, dup := facts[a.Args[1]]; !dup {
					facts[a.Args[1]] = a.Args[0]
					unit[a] = a.Args[1]
				}
			case a.Op == "=" && a.Closed() && a.Args[0].Sort != Bool && opaque(a.Args[1]) && (!opaque(a.Args[0]) || a.Args[1].id > a.Args[0].id) && !contains(a.Args[0], a.Args[1]) && noneIn(facts, a.Args[0]):
				// x = t with x an input-like term created after t: substitute x by t
				if _, dup := facts[a.Args[1]]; !dup {
					facts[a.Args[1]] = a.Args[0]
					unit[a] = a.Args[1]
				}
			case a.Op == "=" && a.Closed() && a.Args[0].Sort != Bool && opaque(a.Args[0]) && (!opaque(a.Args[1]) || a.Args[0].id > a.Args[1].id) && !contains(a.Args[1], a.Args[0]) && noneIn(facts, a.Args[1]):
				if _, dup := facts[a.Args[0]]; !dup {
					facts[a.Args[0]] = a.Args[1]
					unit[a] = a.Args[0]
				}
			case a.Sort == Bool && a.Closed() && a.Op != "forall" && a.Op != "exists" && a.Op != "or" && a.Op != "=>" && a.Op != "ite":
				if _, dup := facts[a]; !dup {
					facts[a] = True
					unit[a] = a
				}
			}
		}
		if len(facts) == 0 {
			break
		}
		changed := false
		var next []*Term
		memo := map[*Term]*Term{}
		for _, a := range cur {
			if self, isUnit := unit[a]; isUnit {
				// a unit may still be simplified by the other units, but never by itself
				saved := facts[self]
				delete(facts, self)
				n := replace(a, facts, map[*Term]*Term{})
				facts[self] = saved
				if n != a {
					changed = true
				}
				next = append(next, n)
				continue
			}
			n := replace(a, facts, memo)
			if n != a {
				changed = true
			}
			next = append(next, n)
		}
		cur = flattenAnd(next)
		for _, a := range cur {
			if a.IsFalse() {
				return []*Term{False}
			}
		}
		if !changed {
			break
		}
	}
	return cur
}

// opaque: a constant or an accessor chain over a constant (an input-like term without structure).
func opaque(t *Term) bool {
	for t.Op == "acc" {
		t = t.Args[0]
	}
	return t.Op == "const"
}

func contains(t, x *Term) bool {
	seen := map[*Term]bool{}
	var walk func(t *Term) bool
	walk = func(t *Term) bool {
		if t == x {
			return true
		}
		if seen[t] {
			return false
		}
		seen[t] = true
		for _, a := range t.Args {
			if walk(a) {
				return true
			}
		}
		return false
	}
	return walk(t)
}

func noneIn(facts map[*Term]*Term, t *Term) bool { return true }
