// Package smt is a small typed term language that prints to SMT-LIB 2.
// Terms are immutable DAGs; constructors do light simplification (constant
// folding, accessor-of-constructor, select-of-store on equal indices).
package smt

import (
	"fmt"
	"math/big"
	"sort"
	"strings"
)

type SortKind int

const (
	KBool SortKind = iota
	KBV
	KInt
	KArray
	KData
	KUninterp
)

type Sort struct {
	Kind  SortKind
	W     int
	Name  string // SMT-LIB rendering
	Dom   *Sort
	Rng   *Sort
	Ctors []*Ctor // KData
}

type Ctor struct {
	Name   string
	Fields []Field
}
type Field struct {
	Name string
	Sort *Sort
}

func (s *Sort) String() string { return s.Name }

var (
	Bool    = &Sort{Kind: KBool, Name: "Bool"}
	Int     = &Sort{Kind: KInt, Name: "Int"}
	bvSorts = map[int]*Sort{}
	arrSort = map[string]*Sort{}
)

func BV(w int) *Sort {
	if s, ok := bvSorts[w]; ok {
		return s
	}
	s := &Sort{Kind: KBV, W: w, Name: fmt.Sprintf("(_ BitVec %d)", w)}
	bvSorts[w] = s
	return s
}

func Array(dom, rng *Sort) *Sort {
	n := "(Array " + dom.Name + " " + rng.Name + ")"
	if s, ok := arrSort[n]; ok {
		return s
	}
	s := &Sort{Kind: KArray, Name: n, Dom: dom, Rng: rng}
	arrSort[n] = s
	return s
}

type Term struct {
	Op    string // see constructors
	Args  []*Term
	Sort  *Sort
	Val   *big.Int // bvlit / intlit
	Name  string   // const / app / bvar name, ctor/accessor name
	Bound []*Term  // forall/exists bound variables (Op=="bvar")
	I, J  int      // extract hi lo, extend amount
	Pat   []*Term  // optional patterns for forall
	free  map[string]bool
	id    int
}

var nextID int

// hash-consing table: structurally equal terms are the same pointer.
var consTable = map[string]*Term{}

func consKey(op string, s *Sort, name string, i, j int, val *big.Int, args []*Term, bound []*Term) string {
	var sb strings.Builder
	sb.WriteString(op)
	sb.WriteByte('|')
	sb.WriteString(s.Name)
	sb.WriteByte('|')
	sb.WriteString(name)
	if i != 0 || j != 0 {
		fmt.Fprintf(&sb, "|%d,%d", i, j)
	}
	if val != nil {
		sb.WriteByte('#')
		sb.WriteString(val.Text(16))
	}
	for _, a := range args {
		fmt.Fprintf(&sb, " %d", a.id)
	}
	for _, b := range bound {
		fmt.Fprintf(&sb, " b%d", b.id)
	}
	return sb.String()
}

func mk(op string, s *Sort, args ...*Term) *Term {
	return mkFull(op, s, "", 0, 0, nil, args, nil, nil)
}

func mkFull(op string, s *Sort, name string, i, j int, val *big.Int, args []*Term, bound []*Term, pat []*Term) *Term {
	key := consKey(op, s, name, i, j, val, args, bound)
	if t, ok := consTable[key]; ok {
		return t
	}
	nextID++
	t := &Term{Op: op, Sort: s, Args: args, id: nextID, Name: name, I: i, J: j, Val: val, Bound: bound, Pat: pat}
	for _, a := range args {
		if a.free != nil {
			if t.free == nil {
				t.free = map[string]bool{}
			}
			for k := range a.free {
				t.free[k] = true
			}
		}
	}
	if op == "bvar" {
		t.free = map[string]bool{name: true}
	}
	if len(bound) > 0 && t.free != nil {
		nf := map[string]bool{}
		for k := range t.free {
			nf[k] = true
		}
		for _, v := range bound {
			delete(nf, v.Name)
		}
		if len(nf) == 0 {
			nf = nil
		}
		t.free = nf
	}
	consTable[key] = t
	return t
}

func (t *Term) ID() int { return t.id }

// Closed reports whether t has no free bound variables.
func (t *Term) Closed() bool { return len(t.free) == 0 }
func (t *Term) HasFree(n string) bool { return t.free[n] }

var True = mk("true", Bool)
var False = mk("false", Bool)

// ResetTerms empties the hash-consing table (terms of a previous program must not be reused:
// their datatype sorts are different objects). True and False are kept.
func ResetTerms() {
	if baseTable == nil {
		// first call (before any program is loaded): remember the terms built by package initialisers
		baseTable = map[string]*Term{}
		for k, v := range consTable {
			baseTable[k] = v
		}
		return
	}
	consTable = map[string]*Term{}
	for k, v := range baseTable {
		consTable[k] = v
	}
}

var baseTable map[string]*Term

func BoolLit(b bool) *Term {
	if b {
		return True
	}
	return False
}

func Const(name string, s *Sort) *Term {
	return mkFull("const", s, name, 0, 0, nil, nil, nil, nil)
}

func BVar(name string, s *Sort) *Term {
	return mkFull("bvar", s, name, 0, 0, nil, nil, nil, nil)
}

func mask(w int) *big.Int {
	m := new(big.Int).Lsh(big.NewInt(1), uint(w))
	return m.Sub(m, big.NewInt(1))
}

func BVLit(v *big.Int, w int) *Term {
	return mkFull("bvlit", BV(w), "", 0, 0, new(big.Int).And(v, mask(w)), nil, nil, nil)
}
func BVLit64(v uint64, w int) *Term { return BVLit(new(big.Int).SetUint64(v), w) }
func BVLitI(v int64, w int) *Term  { return BVLit(big.NewInt(v), w) }
func IntLit(v int64) *Term {
	return mkFull("intlit", Int, "", 0, 0, big.NewInt(v), nil, nil, nil)
}

func (t *Term) IsLit() bool  { return t.Op == "bvlit" || t.Op == "intlit" }
func (t *Term) IsTrue() bool  { return t.Op == "true" }
func (t *Term) IsFalse() bool { return t.Op == "false" }

// signed value of a bv literal
func (t *Term) Signed() *big.Int {
	v := new(big.Int).Set(t.Val)
	if t.Op == "bvlit" && v.Bit(t.Sort.W-1) == 1 {
		v.Sub(v, new(big.Int).Lsh(big.NewInt(1), uint(t.Sort.W)))
	}
	return v
}

func Same(a, b *Term) bool { return a == b }

func Not(a *Term) *Term {
	switch a.Op {
	case "true":
		return False
	case "false":
		return True
	case "not":
		return a.Args[0]
	}
	return mk("not", Bool, a)
}

func And(as ...*Term) *Term {
	var out []*Term
	for _, a := range as {
		if a == nil || a.IsTrue() {
			continue
		}
		if a.IsFalse() {
			return False
		}
		if a.Op == "and" {
			out = append(out, a.Args...)
		} else {
			out = append(out, a)
		}
	}
	switch len(out) {
	case 0:
		return True
	case 1:
		return out[0]
	}
	return mk("and", Bool, out...)
}

func Or(as ...*Term) *Term {
	var out []*Term
	for _, a := range as {
		if a == nil || a.IsFalse() {
			continue
		}
		if a.IsTrue() {
			return True
		}
		if a.Op == "or" {
			out = append(out, a.Args...)
		} else {
			out = append(out, a)
		}
	}
	switch len(out) {
	case 0:
		return False
	case 1:
		return out[0]
	}
	return mk("or", Bool, out...)
}

func Implies(a, b *Term) *Term {
	if a.IsTrue() {
		return b
	}
	if a.IsFalse() || b.IsTrue() {
		return True
	}
	if b.IsFalse() {
		return Not(a)
	}
	return mk("=>", Bool, a, b)
}

func Iff(a, b *Term) *Term { return Eq(a, b) }

func Eq(a, b *Term) *Term {
	if a.Sort != b.Sort {
		panic(fmt.Sprintf("smt.Eq: sort mismatch %s vs %s (%s / %s)", a.Sort, b.Sort, a, b))
	}
	if Same(a, b) {
		return True
	}
	if a.IsLit() && b.IsLit() {
		return BoolLit(a.Val.Cmp(b.Val) == 0)
	}
	if a.Sort == Bool {
		if a.IsTrue() {
			return b
		}
		if b.IsTrue() {
			return a
		}
		if a.IsFalse() {
			return Not(b)
		}
		if b.IsFalse() {
			return Not(a)
		}
	}
	// constructor applications of the same datatype
	if a.Op == "ctor" && b.Op == "ctor" {
		if a.Name != b.Name {
			return False
		}
		var cs []*Term
		for i := range a.Args {
			cs = append(cs, Eq(a.Args[i], b.Args[i]))
		}
		return And(cs...)
	}
	return mk("=", Bool, a, b)
}

func Neq(a, b *Term) *Term { return Not(Eq(a, b)) }

func Distinct(as ...*Term) *Term {
	if len(as) < 2 {
		return True
	}
	return mk("distinct", Bool, as...)
}

func Ite(c, a, b *Term) *Term {
	if a.Sort != b.Sort {
		panic(fmt.Sprintf("smt.Ite: sort mismatch %s vs %s", a.Sort, b.Sort))
	}
	if c.IsTrue() {
		return a
	}
	if c.IsFalse() {
		return b
	}
	if Same(a, b) {
		return a
	}
	if a.Sort == Bool {
		if a.IsTrue() && b.IsFalse() {
			return c
		}
		if a.IsFalse() && b.IsTrue() {
			return Not(c)
		}
	}
	return mk("ite", a.Sort, c, a, b)
}

// ---- bit-vectors

func bvbin(op string, a, b *Term) *Term {
	if a.Sort != b.Sort || a.Sort.Kind != KBV {
		panic(fmt.Sprintf("smt.%s: sort mismatch %s vs %s: %s / %s", op, a.Sort, b.Sort, a, b))
	}
	w := a.Sort.W
	if a.IsLit() && b.IsLit() {
		x, y := a.Val, b.Val
		r := new(big.Int)
		switch op {
		case "bvadd":
			return BVLit(r.Add(x, y), w)
		case "bvsub":
			return BVLit(r.Sub(x, y), w)
		case "bvmul":
			return BVLit(r.Mul(x, y), w)
		case "bvand":
			return BVLit(r.And(x, y), w)
		case "bvor":
			return BVLit(r.Or(x, y), w)
		case "bvxor":
			return BVLit(r.Xor(x, y), w)
		case "bvshl":
			if y.Cmp(big.NewInt(int64(w))) >= 0 {
				return BVLit64(0, w)
			}
			return BVLit(r.Lsh(x, uint(y.Uint64())), w)
		case "bvlshr":
			if y.Cmp(big.NewInt(int64(w))) >= 0 {
				return BVLit64(0, w)
			}
			return BVLit(r.Rsh(x, uint(y.Uint64())), w)
		case "bvudiv":
			if y.Sign() != 0 {
				return BVLit(r.Div(x, y), w)
			}
		case "bvurem":
			if y.Sign() != 0 {
				return BVLit(r.Mod(x, y), w)
			}
		}
	}
	if op == "bvadd" || op == "bvsub" {
		return linNorm(op, a, b)
	}
	// signed division / remainder by a positive power of two (Go truncates towards zero)
	if (op == "bvsrem" || op == "bvsdiv") && b.IsLit() && b.Signed().Sign() > 0 {
		if k := b.Val.TrailingZeroBits(); new(big.Int).Lsh(big.NewInt(1), k).Cmp(b.Val) == 0 && k > 0 {
			neg := bvcmp("bvslt", a, BVLit64(0, w))
			na := BVNeg(a)
			if op == "bvsrem" {
				m := BVLit(new(big.Int).Sub(b.Val, big.NewInt(1)), w)
				return Ite(neg, BVNeg(bvbin("bvand", na, m)), bvbin("bvand", a, m))
			}
			sh := BVLit64(uint64(k), w)
			return Ite(neg, BVNeg(bvbin("bvlshr", na, sh)), bvbin("bvlshr", a, sh))
		}
	}
	// unsigned division / remainder by a power of two: shift / mask (no division circuit for the solver)
	if (op == "bvurem" || op == "bvudiv") && b.IsLit() && b.Val.Sign() > 0 {
		if k := b.Val.TrailingZeroBits(); new(big.Int).Lsh(big.NewInt(1), k).Cmp(b.Val) == 0 {
			if op == "bvurem" {
				return bvbin("bvand", a, BVLit(new(big.Int).Sub(b.Val, big.NewInt(1)), w))
			}
			return bvbin("bvlshr", a, BVLit64(uint64(k), w))
		}
	}
	switch op {
	case "bvadd", "bvor", "bvxor":
		if a.IsLit() && a.Val.Sign() == 0 {
			return b
		}
		if b.IsLit() && b.Val.Sign() == 0 {
			return a
		}
	case "bvsub", "bvshl", "bvlshr", "bvashr":
		if b.IsLit() && b.Val.Sign() == 0 {
			return a
		}
	case "bvmul":
		if a.IsLit() && a.Val.Cmp(big.NewInt(1)) == 0 {
			return b
		}
		if b.IsLit() && b.Val.Cmp(big.NewInt(1)) == 0 {
			return a
		}
	}
	if op == "bvsub" && Same(a, b) {
		return BVLit64(0, w)
	}
	// (x + c1) + c2, (x + c1) - c2 with literals: fold
	if (op == "bvadd" || op == "bvsub") && b.IsLit() && (a.Op == "bvadd" || a.Op == "bvsub") && a.Args[1].IsLit() {
		c1 := new(big.Int).Set(a.Args[1].Val)
		if a.Op == "bvsub" {
			c1.Neg(c1)
		}
		c2 := new(big.Int).Set(b.Val)
		if op == "bvsub" {
			c2.Neg(c2)
		}
		return bvbin("bvadd", a.Args[0], BVLit(c1.Add(c1, c2), w))
	}
	// (x + y) - x  => y
	if op == "bvsub" && a.Op == "bvadd" {
		if Same(a.Args[0], b) {
			return a.Args[1]
		}
		if Same(a.Args[1], b) {
			return a.Args[0]
		}
	}
	return mk(op, a.Sort, a, b)
}

func BVAdd(a, b *Term) *Term  { return bvbin("bvadd", a, b) }
func BVSub(a, b *Term) *Term  { return bvbin("bvsub", a, b) }
func BVMul(a, b *Term) *Term  { return bvbin("bvmul", a, b) }
func BVAnd(a, b *Term) *Term  { return bvbin("bvand", a, b) }
func BVOr(a, b *Term) *Term   { return bvbin("bvor", a, b) }
func BVXor(a, b *Term) *Term  { return bvbin("bvxor", a, b) }
func BVShl(a, b *Term) *Term  { return bvbin("bvshl", a, b) }
func BVLshr(a, b *Term) *Term { return bvbin("bvlshr", a, b) }
func BVAshr(a, b *Term) *Term { return bvbin("bvashr", a, b) }
func BVUdiv(a, b *Term) *Term { return bvbin("bvudiv", a, b) }
func BVUrem(a, b *Term) *Term { return bvbin("bvurem", a, b) }
func BVSdiv(a, b *Term) *Term { return bvbin("bvsdiv", a, b) }
func BVSrem(a, b *Term) *Term { return bvbin("bvsrem", a, b) }
func BVNot(a *Term) *Term {
	if a.IsLit() {
		return BVLit(new(big.Int).Xor(a.Val, mask(a.Sort.W)), a.Sort.W)
	}
	return mk("bvnot", a.Sort, a)
}
func BVNeg(a *Term) *Term {
	if a.IsLit() {
		return BVLit(new(big.Int).Neg(a.Val), a.Sort.W)
	}
	return linNeg(a)
}

func bvcmp(op string, a, b *Term) *Term {
	if a.Sort != b.Sort || a.Sort.Kind != KBV {
		panic(fmt.Sprintf("smt.%s: sort mismatch %s vs %s: %s / %s", op, a.Sort, b.Sort, a, b))
	}
	if a.IsLit() && b.IsLit() {
		var c int
		if op[2] == 'u' {
			c = a.Val.Cmp(b.Val)
		} else {
			c = a.Signed().Cmp(b.Signed())
		}
		switch op[3:] {
		case "lt":
			return BoolLit(c < 0)
		case "le":
			return BoolLit(c <= 0)
		case "gt":
			return BoolLit(c > 0)
		case "ge":
			return BoolLit(c >= 0)
		}
	}
	if Same(a, b) {
		switch op[3:] {
		case "le", "ge":
			return True
		default:
			return False
		}
	}
	// canonical form: only strict "less than" atoms, so that a <= b and b < a are complementary literals
	lt := op[:3] + "lt"
	switch op[3:] {
	case "le":
		return Not(mk(lt, Bool, b, a))
	case "gt":
		return mk(lt, Bool, b, a)
	case "ge":
		return Not(mk(lt, Bool, a, b))
	}
	return mk(op, Bool, a, b)
}

func BVUlt(a, b *Term) *Term { return bvcmp("bvult", a, b) }
func BVUle(a, b *Term) *Term { return bvcmp("bvule", a, b) }
func BVUgt(a, b *Term) *Term { return bvcmp("bvugt", a, b) }
func BVUge(a, b *Term) *Term { return bvcmp("bvuge", a, b) }
func BVSlt(a, b *Term) *Term { return bvcmp("bvslt", a, b) }
func BVSle(a, b *Term) *Term { return bvcmp("bvsle", a, b) }
func BVSgt(a, b *Term) *Term { return bvcmp("bvsgt", a, b) }
func BVSge(a, b *Term) *Term { return bvcmp("bvsge", a, b) }

func Extract(hi, lo int, a *Term) *Term {
	if lo == 0 && hi == a.Sort.W-1 {
		return a
	}
	if a.IsLit() {
		v := new(big.Int).Rsh(a.Val, uint(lo))
		return BVLit(v, hi-lo+1)
	}
	// extract of zero/sign extend within the original width
	if (a.Op == "zero_extend" || a.Op == "sign_extend") && hi < a.Args[0].Sort.W {
		return Extract(hi, lo, a.Args[0])
	}
	return mkFull("extract", BV(hi-lo+1), "", hi, lo, nil, []*Term{a}, nil, nil)
}

func ZeroExt(n int, a *Term) *Term {
	if n == 0 {
		return a
	}
	if a.IsLit() {
		return BVLit(a.Val, a.Sort.W+n)
	}
	return mkFull("zero_extend", BV(a.Sort.W+n), "", n, 0, nil, []*Term{a}, nil, nil)
}

func SignExt(n int, a *Term) *Term {
	if n == 0 {
		return a
	}
	if a.IsLit() {
		return BVLit(a.Signed(), a.Sort.W+n)
	}
	return mkFull("sign_extend", BV(a.Sort.W+n), "", n, 0, nil, []*Term{a}, nil, nil)
}

func Concat(a, b *Term) *Term {
	if a.IsLit() && b.IsLit() {
		v := new(big.Int).Lsh(a.Val, uint(b.Sort.W))
		return BVLit(v.Or(v, b.Val), a.Sort.W+b.Sort.W)
	}
	return mk("concat", BV(a.Sort.W+b.Sort.W), a, b)
}

// Resize converts a bit-vector to width w (truncate, or extend by signedness).
func Resize(a *Term, w int, signed bool) *Term {
	switch {
	case a.Sort.W == w:
		return a
	case a.Sort.W > w:
		return Extract(w-1, 0, a)
	case signed:
		return SignExt(w-a.Sort.W, a)
	default:
		return ZeroExt(w-a.Sort.W, a)
	}
}

// ---- Int

func intbin(op string, a, b *Term) *Term {
	if a.IsLit() && b.IsLit() {
		r := new(big.Int)
		switch op {
		case "+":
			r.Add(a.Val, b.Val)
		case "-":
			r.Sub(a.Val, b.Val)
		case "*":
			r.Mul(a.Val, b.Val)
		}
		return mkFull("intlit", Int, "", 0, 0, r, nil, nil, nil)
	}
	return mk(op, Int, a, b)
}
func IAdd(a, b *Term) *Term { return intbin("+", a, b) }
func ISub(a, b *Term) *Term { return intbin("-", a, b) }
func IMul(a, b *Term) *Term { return intbin("*", a, b) }
func intcmp(op string, a, b *Term) *Term {
	if a.IsLit() && b.IsLit() {
		c := a.Val.Cmp(b.Val)
		switch op {
		case "<":
			return BoolLit(c < 0)
		case "<=":
			return BoolLit(c <= 0)
		case ">":
			return BoolLit(c > 0)
		case ">=":
			return BoolLit(c >= 0)
		}
	}
	return mk(op, Bool, a, b)
}
func ILt(a, b *Term) *Term { return intcmp("<", a, b) }
func ILe(a, b *Term) *Term { return intcmp("<=", a, b) }
func IGt(a, b *Term) *Term { return intcmp(">", a, b) }
func IGe(a, b *Term) *Term { return intcmp(">=", a, b) }

// BV2Int / Int2BV are avoided on purpose (slow); refs are Ints and never mix with BV.

// ---- arrays

func Select(a, i *Term) *Term {
	if a.Sort.Kind != KArray || a.Sort.Dom != i.Sort {
		panic(fmt.Sprintf("smt.Select: bad sorts %s [%s]", a.Sort, i.Sort))
	}
	// select(store(a,i,v), j)
	cur := a
	for cur.Op == "store" {
		if Same(cur.Args[1], i) {
			return cur.Args[2]
		}
		if SurelyDistinct(cur.Args[1], i) {
			cur = cur.Args[0]
			continue
		}
		break
	}
	if cur.Op == "constarr" {
		return cur.Args[0]
	}
	return mk("select", a.Sort.Rng, cur, i)
}

// intBaseOff splits an integer term into a base and a constant offset (t = base + off).
func intBaseOff(t *Term) (*Term, *big.Int) {
	off := new(big.Int)
	for t.Op == "+" && len(t.Args) == 2 {
		switch {
		case t.Args[1].IsLit():
			off.Add(off, t.Args[1].Val)
			t = t.Args[0]
		case t.Args[0].IsLit():
			off.Add(off, t.Args[0].Val)
			t = t.Args[1]
		default:
			return t, off
		}
	}
	return t, off
}

// SurelyDistinct: a and b differ in every model, decided on their shape alone: different literals,
// the same integer base with different offsets (references of successive allocations), references
// of embedded objects (functions fa$<S>.<f>, injective with pairwise disjoint ranges by their axioms)
// of different fields or of surely distinct parents.
func SurelyDistinct(a, b *Term) bool {
	if a == b || a.Sort != b.Sort {
		return false
	}
	if a.IsLit() && b.IsLit() {
		return !Same(a, b)
	}
	if a.Op == "app" && b.Op == "app" && strings.HasPrefix(a.Name, "fa$") && strings.HasPrefix(b.Name, "fa$") && len(a.Args) == 1 && len(b.Args) == 1 {
		if a.Name != b.Name {
			return true
		}
		return SurelyDistinct(a.Args[0], b.Args[0])
	}
	if a.Sort == Int {
		ba, oa := intBaseOff(a)
		bb, ob := intBaseOff(b)
		if ba == bb && (ba != a || bb != b) && oa.Cmp(ob) != 0 {
			return true
		}
	}
	return false
}

func Store(a, i, v *Term) *Term {
	if a.Sort.Kind != KArray || a.Sort.Dom != i.Sort || a.Sort.Rng != v.Sort {
		panic(fmt.Sprintf("smt.Store: bad sorts %s [%s] := %s", a.Sort, i.Sort, v.Sort))
	}
	if a.Op == "store" && Same(a.Args[1], i) {
		return mk("store", a.Sort, a.Args[0], i, v)
	}
	return mk("store", a.Sort, a, i, v)
}

func ConstArray(s *Sort, v *Term) *Term {
	return mk("constarr", s, v)
}

// ---- datatypes / functions

func NewData(name string, ctors ...*Ctor) *Sort {
	return &Sort{Kind: KData, Name: name, Ctors: ctors}
}

func Uninterp(name string) *Sort { return &Sort{Kind: KUninterp, Name: name} }

func MkCtor(s *Sort, c *Ctor, args ...*Term) *Term {
	if len(args) != len(c.Fields) {
		panic("smt.MkCtor: arity " + c.Name)
	}
	for i, a := range args {
		if a.Sort != c.Fields[i].Sort {
			panic(fmt.Sprintf("smt.MkCtor %s field %s: sort %s want %s", c.Name, c.Fields[i].Name, a.Sort, c.Fields[i].Sort))
		}
	}
	// eta: mk(f1(x), ..., fn(x)) is x when mk is the only constructor (a struct value that was taken
	// apart field by field and put together again)
	if len(s.Ctors) == 1 && len(args) > 0 {
		var x *Term
		same := true
		for i, a := range args {
			if a.Op != "acc" || a.Name != c.Fields[i].Name || a.Args[0].Sort != s || (x != nil && a.Args[0] != x) {
				same = false
				break
			}
			x = a.Args[0]
		}
		if same {
			return x
		}
	}
	return mkFull("ctor", s, c.Name, 0, 0, nil, args, nil, nil)
}

// Acc applies accessor number fi of constructor c.
func Acc(s *Sort, c *Ctor, fi int, a *Term) *Term {
	if a.Sort != s {
		panic(fmt.Sprintf("smt.Acc %s on %s", c.Fields[fi].Name, a.Sort))
	}
	if a.Op == "ctor" && a.Name == c.Name {
		return a.Args[fi]
	}
	if a.Op == "ite" {
		// push accessor through ite of constructors to keep terms small
		if (a.Args[1].Op == "ctor" || a.Args[1].Op == "ite") && (a.Args[2].Op == "ctor" || a.Args[2].Op == "ite") {
			return Ite(a.Args[0], Acc(s, c, fi, a.Args[1]), Acc(s, c, fi, a.Args[2]))
		}
	}
	return mkFull("acc", c.Fields[fi].Sort, c.Fields[fi].Name, 0, 0, nil, []*Term{a}, nil, nil)
}

func Is(c *Ctor, a *Term) *Term {
	if a.Op == "ctor" {
		return BoolLit(a.Name == c.Name)
	}
	return mkFull("is", Bool, c.Name, 0, 0, nil, []*Term{a}, nil, nil)
}

// App applies a declared (uninterpreted or defined) function.
func App(name string, rng *Sort, args ...*Term) *Term {
	return mkFull("app", rng, name, 0, 0, nil, args, nil, nil)
}

// ---- quantifiers

func quant(op string, vars []*Term, body *Term, pats ...*Term) *Term {
	if len(vars) == 0 {
		return body
	}
	if body.IsTrue() || body.IsFalse() {
		return body
	}
	return mkFull(op, Bool, "", 0, 0, nil, []*Term{body}, vars, pats)
}
func Forall(vars []*Term, body *Term, pats ...*Term) *Term { return quant("forall", vars, body, pats...) }
func Exists(vars []*Term, body *Term) *Term               { return quant("exists", vars, body) }

// Subst replaces bound variables (by name) or constants (by name) according to m.
func Subst(t *Term, m map[string]*Term) *Term {
	memo := map[*Term]*Term{}
	return subst(t, m, memo)
}

func subst(t *Term, m map[string]*Term, memo map[*Term]*Term) *Term {
	if r, ok := memo[t]; ok {
		return r
	}
	var r *Term
	switch t.Op {
	case "bvar", "const":
		if v, ok := m[t.Name]; ok {
			r = v
		} else {
			r = t
		}
	case "true", "false", "bvlit", "intlit":
		r = t
	case "forall", "exists":
		m2 := m
		for _, b := range t.Bound {
			if _, ok := m[b.Name]; ok {
				if &m2 == &m || len(m2) == len(m) {
					m2 = map[string]*Term{}
					for k, v := range m {
						m2[k] = v
					}
				}
				delete(m2, b.Name)
			}
		}
		body := subst(t.Args[0], m2, map[*Term]*Term{})
		var pats []*Term
		for _, p := range t.Pat {
			pats = append(pats, subst(p, m2, map[*Term]*Term{}))
		}
		r = quant(t.Op, t.Bound, body, pats...)
	default:
		changed := false
		args := make([]*Term, len(t.Args))
		for i, a := range t.Args {
			args[i] = subst(a, m, memo)
			if args[i] != a {
				changed = true
			}
		}
		if !changed {
			r = t
		} else {
			r = Rebuild(t, args)
		}
	}
	memo[t] = r
	return r
}

// Rebuild re-applies t's operator to new arguments through the simplifying constructors.
func Rebuild(t *Term, args []*Term) *Term {
	switch t.Op {
	case "not":
		return Not(args[0])
	case "and":
		return And(args...)
	case "or":
		return Or(args...)
	case "=>":
		return Implies(args[0], args[1])
	case "=":
		return Eq(args[0], args[1])
	case "ite":
		return Ite(args[0], args[1], args[2])
	case "distinct":
		return Distinct(args...)
	case "bvadd", "bvsub", "bvmul", "bvand", "bvor", "bvxor", "bvshl", "bvlshr", "bvashr", "bvudiv", "bvurem", "bvsdiv", "bvsrem":
		return bvbin(t.Op, args[0], args[1])
	case "bvnot":
		return BVNot(args[0])
	case "bvneg":
		return BVNeg(args[0])
	case "bvult", "bvule", "bvugt", "bvuge", "bvslt", "bvsle", "bvsgt", "bvsge":
		return bvcmp(t.Op, args[0], args[1])
	case "extract":
		return Extract(t.I, t.J, args[0])
	case "zero_extend":
		return ZeroExt(t.I, args[0])
	case "sign_extend":
		return SignExt(t.I, args[0])
	case "concat":
		return Concat(args[0], args[1])
	case "select":
		return Select(args[0], args[1])
	case "store":
		return Store(args[0], args[1], args[2])
	case "+", "-", "*":
		return intbin(t.Op, args[0], args[1])
	case "<", "<=", ">", ">=":
		return intcmp(t.Op, args[0], args[1])
	case "acc":
		// find ctor by accessor name
		s := args[0].Sort
		for _, c := range s.Ctors {
			for fi, f := range c.Fields {
				if f.Name == t.Name {
					return Acc(s, c, fi, args[0])
				}
			}
		}
	case "is":
		for _, c := range args[0].Sort.Ctors {
			if c.Name == t.Name {
				return Is(c, args[0])
			}
		}
	}
	return mkFull(t.Op, t.Sort, t.Name, t.I, t.J, t.Val, args, nil, nil)
}

// ---- printing (for diagnostics; the SMT-LIB writer is in print.go)

func (t *Term) String() string {
	var sb strings.Builder
	writeTerm(&sb, t, nil)
	return sb.String()
}

func bvLitStr(t *Term) string {
	w := t.Sort.W
	if w%4 == 0 {
		return fmt.Sprintf("#x%0*s", w/4, t.Val.Text(16))
	}
	return fmt.Sprintf("#b%0*s", w, t.Val.Text(2))
}

func writeTerm(sb *strings.Builder, t *Term, names map[*Term]string) {
	if names != nil {
		if n, ok := names[t]; ok {
			sb.WriteString(n)
			return
		}
	}
	switch t.Op {
	case "true", "false":
		sb.WriteString(t.Op)
	case "const", "bvar":
		sb.WriteString(t.Name)
	case "bvlit":
		sb.WriteString(bvLitStr(t))
	case "intlit":
		if t.Val.Sign() < 0 {
			sb.WriteString("(- " + new(big.Int).Neg(t.Val).String() + ")")
		} else {
			sb.WriteString(t.Val.String())
		}
	case "extract":
		fmt.Fprintf(sb, "((_ extract %d %d) ", t.I, t.J)
		writeTerm(sb, t.Args[0], names)
		sb.WriteString(")")
	case "zero_extend", "sign_extend":
		fmt.Fprintf(sb, "((_ %s %d) ", t.Op, t.I)
		writeTerm(sb, t.Args[0], names)
		sb.WriteString(")")
	case "constarr":
		fmt.Fprintf(sb, "((as const %s) ", t.Sort.Name)
		writeTerm(sb, t.Args[0], names)
		sb.WriteString(")")
	case "ctor":
		if len(t.Args) == 0 {
			sb.WriteString(t.Name)
			return
		}
		sb.WriteString("(" + t.Name)
		for _, a := range t.Args {
			sb.WriteString(" ")
			writeTerm(sb, a, names)
		}
		sb.WriteString(")")
	case "acc":
		sb.WriteString("(" + t.Name + " ")
		writeTerm(sb, t.Args[0], names)
		sb.WriteString(")")
	case "is":
		sb.WriteString("((_ is " + t.Name + ") ")
		writeTerm(sb, t.Args[0], names)
		sb.WriteString(")")
	case "app":
		if len(t.Args) == 0 {
			sb.WriteString(t.Name)
			return
		}
		sb.WriteString("(" + t.Name)
		for _, a := range t.Args {
			sb.WriteString(" ")
			writeTerm(sb, a, names)
		}
		sb.WriteString(")")
	case "forall", "exists":
		sb.WriteString("(" + t.Op + " (")
		for _, b := range t.Bound {
			fmt.Fprintf(sb, "(%s %s)", b.Name, b.Sort.Name)
		}
		sb.WriteString(") ")
		if len(t.Pat) > 0 {
			sb.WriteString("(! ")
		}
		writeTerm(sb, t.Args[0], names)
		if len(t.Pat) > 0 {
			sb.WriteString(" :pattern (")
			for i, p := range t.Pat {
				if i > 0 {
					sb.WriteString(" ")
				}
				writeTerm(sb, p, names)
			}
			sb.WriteString("))")
		}
		sb.WriteString(")")
	default:
		sb.WriteString("(" + t.Op)
		for _, a := range t.Args {
			sb.WriteString(" ")
			writeTerm(sb, a, names)
		}
		sb.WriteString(")")
	}
}

// Consts collects the free constants of the given terms, sorted by name.
func Consts(ts ...*Term) []*Term {
	seen := map[*Term]bool{}
	byName := map[string]*Term{}
	var walk func(t *Term)
	walk = func(t *Term) {
		if seen[t] {
			return
		}
		seen[t] = true
		if t.Op == "const" {
			if o, ok := byName[t.Name]; ok && o.Sort != t.Sort {
				panic("constant " + t.Name + " used at two sorts: " + o.Sort.Name + " / " + t.Sort.Name)
			}
			byName[t.Name] = t
		}
		for _, a := range t.Args {
			walk(a)
		}
		for _, p := range t.Pat {
			walk(p)
		}
	}
	for _, t := range ts {
		walk(t)
	}
	var names []string
	for n := range byName {
		names = append(names, n)
	}
	sort.Strings(names)
	var out []*Term
	for _, n := range names {
		out = append(out, byName[n])
	}
	return out
}
