package smt

import (
	"fmt"
)

// Quantifier elimination by skolemisation and generator-side instantiation.
//
// Input: a conjunction of assertions (hypotheses and the negated goal).
// Output: a conjunction that is implied by the input (so "unsat" of the output
// proves "unsat" of the input), in which every top-level existential has been
// replaced by a fresh constant and every positive universal by a finite set of
// instances chosen by matching `select` index terms and function arguments
// modulo bit-vector addition. A select trigger only fires on ground selects of
// arrays that may denote the same array (same term, or related through store /
// ite / heap-read chains).

type Inst struct {
	Fresh     func(prefix string, s *Sort) *Term
	Rounds    int
	MaxPerQ   int
	KeepQuant bool // keep the quantified formula next to its instances
	NoInst    bool // skolemise only, drop every universal hypothesis
	Stats     struct{ Skolems, Universals, Instances int }
}

func (in *Inst) Prepare(asserts []*Term) []*Term {
	if in.Rounds == 0 && !in.NoInst {
		in.Rounds = 4
	}
	if in.MaxPerQ == 0 {
		in.MaxPerQ = 400
	}
	var cur []*Term
	for _, a := range asserts {
		cur = append(cur, in.nnf(a, true, false))
	}
	var flat []*Term
	var fl func(t *Term)
	fl = func(t *Term) {
		if t.Op == "and" {
			for _, a := range t.Args {
				fl(a)
			}
		} else {
			flat = append(flat, t)
		}
	}
	for _, c := range cur {
		fl(c)
	}
	cur = flat
	if !HasQuant(cur...) {
		return cur
	}
	done := map[string]bool{}
	for round := 0; round < in.Rounds; round++ {
		g := collectGround(cur)
		changed := false
		var next []*Term
		for _, c := range cur {
			next = append(next, in.expand(c, g, done, &changed))
		}
		flat = nil
		for _, c := range next {
			fl(c)
		}
		cur = flat
		if !changed {
			break
		}
	}
	if !in.KeepQuant {
		var out []*Term
		for _, c := range cur {
			out = append(out, dropQuant(c))
		}
		cur = out
	}
	// dedupe
	seen := map[*Term]bool{}
	var out []*Term
	for _, c := range cur {
		if !seen[c] && !c.IsTrue() {
			seen[c] = true
			out = append(out, c)
		}
	}
	return out
}

// nnf pushes negations to atoms; pos is the polarity; underForall tells
// whether an enclosing universal prevents skolemisation by constants.
func (in *Inst) nnf(t *Term, pos bool, underForall bool) *Term {
	if !HasQuant(t) {
		if pos {
			return t
		}
		return Not(t)
	}
	switch t.Op {
	case "not":
		return in.nnf(t.Args[0], !pos, underForall)
	case "and", "or":
		var as []*Term
		for _, a := range t.Args {
			as = append(as, in.nnf(a, pos, underForall))
		}
		if (t.Op == "and") == pos {
			return And(as...)
		}
		return Or(as...)
	case "=>":
		a := in.nnf(t.Args[0], !pos, underForall)
		b := in.nnf(t.Args[1], pos, underForall)
		if pos {
			return Or(a, b)
		}
		return And(a, b)
	case "=":
		if t.Args[0].Sort == Bool {
			a, b := t.Args[0], t.Args[1]
			e := And(Implies(a, b), Implies(b, a))
			return in.nnf(e, pos, underForall)
		}
	case "ite":
		if t.Sort == Bool {
			c, a, b := t.Args[0], t.Args[1], t.Args[2]
			e := And(Implies(c, a), Implies(Not(c), b))
			return in.nnf(e, pos, underForall)
		}
	case "forall", "exists":
		isForall := (t.Op == "forall") == pos
		if isForall {
			body := in.nnf(t.Args[0], pos, true)
			in.Stats.Universals++
			return mkQ("forall", t.Bound, body)
		}
		if !underForall {
			m := map[string]*Term{}
			for _, b := range t.Bound {
				m[b.Name] = in.Fresh("sk_"+b.Name, b.Sort)
				in.Stats.Skolems++
			}
			return in.nnf(Subst(t.Args[0], m), pos, false)
		}
		body := in.nnf(t.Args[0], pos, underForall)
		return mkQ("exists", t.Bound, body)
	}
	// quantifier below a non-boolean operator: leave it (solver will see it only in KeepQuant mode)
	if pos {
		return t
	}
	return Not(t)
}

func mkQ(op string, vars []*Term, body *Term) *Term {
	if body.Op == op {
		return quant(op, append(append([]*Term{}, vars...), body.Bound...), body.Args[0])
	}
	return quant(op, vars, body)
}

type ground struct {
	idx     map[*Term][]*Term         // base array -> closed index terms used on it
	idxSeen map[*Term]map[*Term]bool
	args    map[string]map[int][]*Term // function name -> arg position -> closed args
	argSeen map[string]map[*Term]bool
	skolems map[string][]*Term // sort name -> skolem constants
	bases   map[*Term][]*Term
}

// basesOf: the arrays a (closed) array-valued term may be equal to or derived from.
func (g *ground) basesOf(t *Term) []*Term {
	if b, ok := g.bases[t]; ok {
		return b
	}
	g.bases[t] = []*Term{t} // cycle guard
	set := map[*Term]bool{t: true}
	out := []*Term{t}
	add := func(ts []*Term) {
		for _, x := range ts {
			if !set[x] {
				set[x] = true
				out = append(out, x)
			}
		}
	}
	switch t.Op {
	case "store":
		add(g.basesOf(t.Args[0]))
	case "ite":
		add(g.basesOf(t.Args[1]))
		add(g.basesOf(t.Args[2]))
	case "select":
		// heap read: select(store(store(H, r1, a1), r2, a2), r)
		h, r := t.Args[0], t.Args[1]
		for h.Op == "store" {
			if !(h.Args[1].IsLit() && r.IsLit() && h.Args[1] != r) {
				add(g.basesOf(h.Args[2]))
			}
			h = h.Args[0]
		}
		if h.Op == "ite" {
			add(g.basesOf(Select(h.Args[1], r)))
			add(g.basesOf(Select(h.Args[2], r)))
		} else {
			add([]*Term{Select(h, r)})
		}
	}
	g.bases[t] = out
	return out
}

func collectGround(ts []*Term) *ground {
	g := &ground{idx: map[*Term][]*Term{}, idxSeen: map[*Term]map[*Term]bool{}, args: map[string]map[int][]*Term{},
		argSeen: map[string]map[*Term]bool{}, skolems: map[string][]*Term{}, bases: map[*Term][]*Term{}}
	addIdx := func(arr, i *Term) {
		if !arr.Closed() || !i.Closed() {
			return
		}
		for _, b := range g.basesOf(arr) {
			if g.idxSeen[b] == nil {
				g.idxSeen[b] = map[*Term]bool{}
			}
			if !g.idxSeen[b][i] {
				g.idxSeen[b][i] = true
				g.idx[b] = append(g.idx[b], i)
			}
		}
	}
	visited := map[*Term]bool{}
	skSeen := map[*Term]bool{}
	var walk func(t *Term)
	walk = func(t *Term) {
		if visited[t] {
			return
		}
		visited[t] = true
		switch t.Op {
		case "select":
			addIdx(t.Args[0], t.Args[1])
		case "store":
			addIdx(t, t.Args[1])
		case "app":
			for i, a := range t.Args {
				if a.Closed() {
					if g.args[t.Name] == nil {
						g.args[t.Name] = map[int][]*Term{}
					}
					k := fmt.Sprintf("%s:%d", t.Name, i)
					if g.argSeen[k] == nil {
						g.argSeen[k] = map[*Term]bool{}
					}
					if !g.argSeen[k][a] {
						g.argSeen[k][a] = true
						g.args[t.Name][i] = append(g.args[t.Name][i], a)
					}
				}
			}
		case "const":
			if len(t.Name) > 3 && t.Name[:3] == "sk_" && !skSeen[t] {
				skSeen[t] = true
				g.skolems[t.Sort.Name] = append(g.skolems[t.Sort.Name], t)
			}
		}
		for _, a := range t.Args {
			walk(a)
		}
	}
	for _, t := range ts {
		walk(t)
	}
	return g
}

// expand replaces each positive universal in t (t is in NNF) by itself plus new instances.
func (in *Inst) expand(t *Term, g *ground, done map[string]bool, changed *bool) *Term {
	if !HasQuant(t) {
		return t
	}
	switch t.Op {
	case "and", "or":
		var as []*Term
		for _, a := range t.Args {
			as = append(as, in.expand(a, g, done, changed))
		}
		if t.Op == "and" {
			return And(as...)
		}
		return Or(as...)
	case "forall":
		insts := in.instances(t, g, done)
		if len(insts) > 0 {
			*changed = true
		}
		return And(append([]*Term{t}, insts...)...)
	}
	return t
}

// linear decomposition: e == v + c where v is the bound variable, c closed.
func decompose(e *Term, v string) (c *Term, ok bool) {
	if e.Op == "bvar" && e.Name == v {
		return nil, true
	}
	if !e.HasFree(v) {
		return nil, false
	}
	switch e.Op {
	case "bvadd":
		a, b := e.Args[0], e.Args[1]
		if a.HasFree(v) && b.Closed() {
			c, ok := decompose(a, v)
			if !ok {
				return nil, false
			}
			if c == nil {
				return b, true
			}
			return BVAdd(c, b), true
		}
		if b.HasFree(v) && a.Closed() {
			c, ok := decompose(b, v)
			if !ok {
				return nil, false
			}
			if c == nil {
				return a, true
			}
			return BVAdd(c, a), true
		}
	case "bvsub":
		a, b := e.Args[0], e.Args[1]
		if a.HasFree(v) && b.Closed() {
			c, ok := decompose(a, v)
			if !ok {
				return nil, false
			}
			if c == nil {
				return BVNeg(b), true
			}
			return BVSub(c, b), true
		}
	}
	return nil, false
}

func (in *Inst) candidates(q *Term, v *Term, g *ground) []*Term {
	var out []*Term
	seen := map[*Term]bool{}
	add := func(t *Term) {
		if !seen[t] {
			seen[t] = true
			out = append(out, t)
		}
	}
	triggered := false
	visited := map[*Term]bool{}
	var walk func(t *Term)
	walk = func(t *Term) {
		if visited[t] || !t.HasFree(v.Name) {
			return
		}
		visited[t] = true
		switch t.Op {
		case "select":
			if c, ok := decompose(t.Args[1], v.Name); ok && t.Args[0].Closed() {
				triggered = true
				for _, b := range g.basesOf(t.Args[0]) {
					for _, gi := range g.idx[b] {
						if gi.Sort != v.Sort {
							continue
						}
						if c == nil {
							add(gi)
						} else if v.Sort.Kind == KBV {
							add(BVSub(gi, c))
						}
					}
				}
			}
		case "app":
			for i, a := range t.Args {
				if a.Sort != v.Sort {
					continue
				}
				if c, ok := decompose(a, v.Name); ok {
					triggered = true
					for _, ga := range g.args[t.Name][i] {
						if c == nil {
							add(ga)
						} else if v.Sort.Kind == KBV {
							add(BVSub(ga, c))
						}
					}
				}
			}
		}
		for _, a := range t.Args {
			walk(a)
		}
	}
	walk(q.Args[0])
	for _, s := range g.skolems[v.Sort.Name] {
		add(s)
	}
	_ = triggered
	return out
}

func (in *Inst) instances(q *Term, g *ground, done map[string]bool) []*Term {
	cands := make([][]*Term, len(q.Bound))
	total := 1
	for i, v := range q.Bound {
		cands[i] = in.candidates(q, v, g)
		if len(cands[i]) == 0 {
			return nil
		}
		total *= len(cands[i])
	}
	var out []*Term
	idx := make([]int, len(q.Bound))
	qid := fmt.Sprintf("q%d", q.id)
	count := 0
	for {
		m := map[string]*Term{}
		key := qid
		for i, v := range q.Bound {
			m[v.Name] = cands[i][idx[i]]
			key += fmt.Sprintf("|%d", cands[i][idx[i]].id)
		}
		if !done[key] {
			done[key] = true
			inst := Subst(q.Args[0], m)
			if !inst.IsTrue() {
				out = append(out, inst)
				in.Stats.Instances++
			}
			count++
			if count >= in.MaxPerQ {
				break
			}
		}
		k := len(idx) - 1
		for k >= 0 {
			idx[k]++
			if idx[k] < len(cands[k]) {
				break
			}
			idx[k] = 0
			k--
		}
		if k < 0 {
			break
		}
	}
	return out
}

// dropQuant removes remaining quantified sub-formulas from an NNF term
// (positive occurrences become true: a weakening of the hypotheses).
func dropQuant(t *Term) *Term {
	if !HasQuant(t) {
		return t
	}
	switch t.Op {
	case "and", "or":
		var as []*Term
		for _, a := range t.Args {
			as = append(as, dropQuant(a))
		}
		if t.Op == "and" {
			return And(as...)
		}
		return Or(as...)
	}
	return True
}
