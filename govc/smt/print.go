package smt

import (
	"fmt"
	"sort"
	"strings"
)

// FuncDecl is an uninterpreted function (or a constant when Args is empty).
type FuncDecl struct {
	Name string
	Args []*Sort
	Rng  *Sort
}

// Decls is the signature a script is printed against.
type Decls struct {
	Sorts  []*Sort // uninterpreted sorts and datatypes in dependency order
	sortOK map[string]bool
	Funcs  []*FuncDecl
	funcOK map[string]*FuncDecl
	Axioms []*Term // global axioms (about Funcs); added to every query that mentions the function
	AxName []string
}

func NewDecls() *Decls {
	return &Decls{sortOK: map[string]bool{}, funcOK: map[string]*FuncDecl{}}
}

func (d *Decls) AddSort(s *Sort) {
	if d.sortOK[s.Name] {
		return
	}
	d.sortOK[s.Name] = true
	d.Sorts = append(d.Sorts, s)
}

func (d *Decls) HasSort(name string) bool { return d.sortOK[name] }

func (d *Decls) AddFunc(name string, rng *Sort, args ...*Sort) *FuncDecl {
	if f, ok := d.funcOK[name]; ok {
		return f
	}
	f := &FuncDecl{Name: name, Args: args, Rng: rng}
	d.funcOK[name] = f
	d.Funcs = append(d.Funcs, f)
	return f
}

func (d *Decls) Func(name string) *FuncDecl { return d.funcOK[name] }

func (d *Decls) AddAxiom(name string, t *Term) {
	d.Axioms = append(d.Axioms, t)
	d.AxName = append(d.AxName, name)
}

// RelevantAxioms returns the global axioms about functions that occur in ts (transitively).
func (d *Decls) RelevantAxioms(ts []*Term) []*Term {
	used := map[string]bool{}
	for _, t := range ts {
		collectApps(t, used)
	}
	var out []*Term
	axUsed := make([]bool, len(d.Axioms))
	for changed := true; changed; {
		changed = false
		for i, ax := range d.Axioms {
			if axUsed[i] {
				continue
			}
			m := map[string]bool{}
			collectApps(ax, m)
			hit := false
			for n := range m {
				if used[n] {
					hit = true
					break
				}
			}
			if hit {
				axUsed[i] = true
				changed = true
				out = append(out, ax)
				for n := range m {
					used[n] = true
				}
			}
		}
	}
	return out
}

// Script renders a satisfiability query: declarations, the assertions, check-sat, get-model.
// logic "" lets the solver choose (ALL for cvc5).
func (d *Decls) Script(asserts []*Term, opts ScriptOpts) string {
	var sb strings.Builder
	if opts.ProduceModels {
		sb.WriteString("(set-option :produce-models true)\n")
	}
	if opts.Logic != "" {
		sb.WriteString("(set-logic " + opts.Logic + ")\n")
	}
	// which functions are mentioned (transitively through axioms)?
	used := map[string]bool{}
	var all []*Term
	all = append(all, asserts...)
	mark := func(ts []*Term) {
		seen := map[*Term]bool{}
		var walk func(t *Term)
		walk = func(t *Term) {
			if seen[t] {
				return
			}
			seen[t] = true
			if t.Op == "app" {
				used[t.Name] = true
			}
			for _, a := range t.Args {
				walk(a)
			}
		}
		for _, t := range ts {
			walk(t)
		}
	}
	mark(asserts)
	// (axioms are added by the caller through RelevantAxioms, so that they take part in
	// quantifier instantiation like every other hypothesis)
	for _, s := range d.Sorts {
		switch s.Kind {
		case KUninterp:
			fmt.Fprintf(&sb, "(declare-sort %s 0)\n", s.Name)
		case KData:
			fmt.Fprintf(&sb, "(declare-datatypes ((%s 0)) ((", s.Name)
			for _, c := range s.Ctors {
				sb.WriteString("(" + c.Name)
				for _, f := range c.Fields {
					fmt.Fprintf(&sb, " (%s %s)", f.Name, f.Sort.Name)
				}
				sb.WriteString(")")
			}
			sb.WriteString(")))\n")
		}
	}
	for _, f := range d.Funcs {
		if !used[f.Name] {
			continue
		}
		sb.WriteString("(declare-fun " + f.Name + " (")
		for i, a := range f.Args {
			if i > 0 {
				sb.WriteString(" ")
			}
			sb.WriteString(a.Name)
		}
		sb.WriteString(") " + f.Rng.Name + ")\n")
	}
	for _, c := range Consts(all...) {
		fmt.Fprintf(&sb, "(declare-const %s %s)\n", c.Name, c.Sort.Name)
	}
	// sharing
	refs := map[*Term]int{}
	var order []*Term
	var count func(t *Term)
	count = func(t *Term) {
		refs[t]++
		if refs[t] > 1 {
			return
		}
		for _, a := range t.Args {
			count(a)
		}
		for _, p := range t.Pat {
			count(p)
		}
		order = append(order, t) // post-order
	}
	for _, t := range all {
		count(t)
	}
	names := map[*Term]string{}
	n := 0
	for _, t := range order {
		if refs[t] < 2 || len(t.Args) == 0 || !t.Closed() {
			continue
		}
		var b strings.Builder
		writeTerm(&b, t, names)
		n++
		nm := fmt.Sprintf("$s%d", n)
		fmt.Fprintf(&sb, "(define-fun %s () %s %s)\n", nm, t.Sort.Name, b.String())
		names[t] = nm
	}
	for i, t := range all {
		var b strings.Builder
		writeTerm(&b, t, names)
		if i < len(asserts) && i < len(opts.Labels) && opts.Labels[i] != "" {
			fmt.Fprintf(&sb, "; %s\n", opts.Labels[i])
		}
		fmt.Fprintf(&sb, "(assert %s)\n", b.String())
	}
	sb.WriteString("(check-sat)\n")
	if opts.ProduceModels {
		if len(opts.GetValues) > 0 {
			sb.WriteString("(get-value (")
			for i, t := range opts.GetValues {
				if i > 0 {
					sb.WriteString(" ")
				}
				var b strings.Builder
				writeTerm(&b, t, names)
				sb.WriteString(b.String())
			}
			sb.WriteString("))\n")
		}
	}
	return sb.String()
}

type ScriptOpts struct {
	Logic         string
	ProduceModels bool
	Labels        []string
	GetValues     []*Term
}

func collectApps(t *Term, m map[string]bool) {
	seen := map[*Term]bool{}
	var walk func(t *Term)
	walk = func(t *Term) {
		if seen[t] {
			return
		}
		seen[t] = true
		if t.Op == "app" {
			m[t.Name] = true
		}
		for _, a := range t.Args {
			walk(a)
		}
	}
	walk(t)
}

// HasQuant reports whether any of the terms contains a quantifier.
func HasQuant(ts ...*Term) bool {
	seen := map[*Term]bool{}
	var walk func(t *Term) bool
	walk = func(t *Term) bool {
		if seen[t] {
			return false
		}
		seen[t] = true
		if t.Op == "forall" || t.Op == "exists" {
			return true
		}
		for _, a := range t.Args {
			if walk(a) {
				return true
			}
		}
		return false
	}
	for _, t := range ts {
		if walk(t) {
			return true
		}
	}
	return false
}

// Size is the DAG size of the terms.
func Size(ts ...*Term) int {
	seen := map[*Term]bool{}
	var walk func(t *Term)
	walk = func(t *Term) {
		if seen[t] {
			return
		}
		seen[t] = true
		for _, a := range t.Args {
			walk(a)
		}
	}
	for _, t := range ts {
		walk(t)
	}
	return len(seen)
}

func SortedKeys[V any](m map[string]V) []string {
	var ks []string
	for k := range m {
		ks = append(ks, k)
	}
	sort.Strings(ks)
	return ks
}
