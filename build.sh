#!/bin/sh
# Builds /verif/bin/govc offline with the go1.26.8 toolchain.
set -e
cd "$(dirname "$0")/govc"
export PATH=/opt/veriftools/go1.26.8/bin:$PATH GOFLAGS=-mod=mod GOPROXY=off GOSUMDB=off GOTOOLCHAIN=local
mkdir -p ../bin
go build -o ../bin/govc ./cmd/govc
