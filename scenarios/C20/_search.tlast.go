package tlast

// Bounded search for a failing input, used as the replay of C19/C20 obligations that have no model
// replay. Every string of up to 5 symbols over an alphabet of the characters and short words the
// lexer distinguishes (plus a few longer hand-picked texts) is run through the lexer and through both
// parsers, in both language modes. The test fails iff the real code panics, hangs, produces tokens that
// do not tile the input, or reports a position outside the text. This is a search, not a proof.

import (
	"errors"
	"fmt"
	"io"
	"testing"
	"time"
)

var govcSearchAlphabet = []string{"a", "B", "7", "_", ".", "#", "@", "/", "//", "\r", "\n", " ", "-", "=", "<", ">", "?", ":", ";", "\xe9", "Type", "<=>", "#a8509bda", "---types---", "---functions---", "{", "}", "(", ")", "[", "]", "%", "!", "*", "+", ",", "|"}

func govcSearchOne(text string, lang LexerLanguage) (msg string) {
	defer func() {
		if p := recover(); p != nil {
			msg = fmt.Sprintf("panic: %v", p)
		}
	}()
	opts := LexerOptions{LexerLanguage: lang}
	lex := newLexer(text, "x.tl", opts)
	toks, err := lex.generateTokens()
	if rec := lex.recombineTokens(); rec != text {
		return fmt.Sprintf("tokens do not recombine to the input: %q", rec)
	}
	for _, tk := range toks {
		if tk.pos.offset < 0 || tk.pos.offset+len(tk.val) > len(text) || text[tk.pos.offset:tk.pos.offset+len(tk.val)] != tk.val {
			return fmt.Sprintf("token %q at offset %d is not a piece of the input", tk.val, tk.pos.offset)
		}
	}
	if err == nil && (len(toks) == 0 || toks[len(toks)-1].tokenType != eof) {
		return "token list does not end with eof"
	}
	check := func(e error) string {
		var pe *ParseError
		if e != nil && errors.As(e, &pe) {
			if pe.Pos.Begin.offset < 0 || pe.Pos.Begin.offset > len(text) || pe.Pos.End.offset < pe.Pos.Begin.offset || pe.Pos.End.offset > len(text) {
				return fmt.Sprintf("error position [%d..%d] outside the text of length %d (%v)", pe.Pos.Begin.offset, pe.Pos.End.offset, len(text), e)
			}
			pe.ConsolePrint(io.Discard, e, false)
		}
		return ""
	}
	if m := check(err); m != "" {
		return m
	}
	if lang == TL1 {
		_, perr := ParseTLFile(text, "x.tl", opts)
		return check(perr)
	}
	_, perr := ParseTL2File(text, "x.tl", opts)
	return check(perr)
}

func govcSearchGuard(text string, lang LexerLanguage) string {
	done := make(chan string, 1)
	go func() { done <- govcSearchOne(text, lang) }()
	select {
	case m := <-done:
		return m
	case <-time.After(5 * time.Second):
		return "does not terminate within 5 s"
	}
}

func TestGovcReplay(t *testing.T) {
	n := 0
	var rec func(prefix string, depth int)
	rec = func(prefix string, depth int) {
		for _, lang := range []LexerLanguage{TL1, TL2} {
			n++
			if m := govcSearchOne(prefix, lang); m != "" {
				// re-run under the hang guard for the report (panics are already caught)
				t.Fatalf("FOUND: input %q (language %d): %s", prefix, lang, m)
			}
		}
		if depth == 0 {
			return
		}
		for _, s := range govcSearchAlphabet {
			rec(prefix+s, depth-1)
		}
	}
	// depth 3 over the whole alphabet, depth 5 over the first 12 symbols
	rec("", 3)
	saved := govcSearchAlphabet
	govcSearchAlphabet = saved[:12]
	rec("", 5)
	govcSearchAlphabet = saved
	// parser-level: all sequences of up to 4 lexically valid fragments (space separated), each followed
	// by nothing, by a comment running to the end of the input, and by a terminating ';'
	frags := []string{"a", "x:int", "n:#", "x:n.", "x:n.0?int", "(", ")", "+", "1", "foo<", ">", ",", "[", "]", "=", "A", ";", "// c", "@m", "#", "%", "!", "?", "{t:Type}", "*", "ns.a", "=>"}
	var prec func(prefix string, depth int)
	prec = func(prefix string, depth int) {
		for _, tail := range []string{"", " // to be continued", ";"} {
			n++
			if m := govcSearchOne(prefix+tail, TL1); m != "" {
				t.Fatalf("FOUND: input %q (language 0): %s", prefix+tail, m)
			}
		}
		if depth == 0 {
			return
		}
		for _, f := range frags {
			if prefix == "" {
				prec(f, depth-1)
			} else {
				prec(prefix+" "+f, depth-1)
			}
		}
	}
	prec("", 4)
	for _, text := range []string{
		"foo = Foo; // caf\xe9", "int#a8509bda ? = Int;\nbar y:(foo int) = Bar;", "testNs.testName<x:Type", "a.B c:d.E = F.g;", "@x @y a = A;",
		"---types---\n---functions---\n@read f#00000001 = Int;", "a#1234567 = A;", "a#123456789 = A;", "Hren.vam", "x.", ".x", "//\r", "/*", "\r\r\n",
	} {
		for _, lang := range []LexerLanguage{TL1, TL2} {
			n++
			if m := govcSearchGuard(text, lang); m != "" {
				t.Fatalf("FOUND: input %q (language %d): %s", text, lang, m)
			}
		}
	}
	t.Logf("searched cases=%d", n)
}
