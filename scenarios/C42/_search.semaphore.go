package semaphore

// Randomised schedule search, used as the replay of C42 obligations that have no scenario of their
// own. Small scenarios (a semaphore of size 1..3, two to four goroutines doing Acquire with and without
// cancellation, TryAcquire, Release, SetSize with weights 0..size) are run many times; whenever the
// semaphore is quiescent (every goroutine is parked or done) the monitor invariants of the contract are
// checked under the lock:
//   - the held weight never exceeds the size (ForceAcquire is not used),
//   - with the lock free, the first waiter does not fit (no lost wake-up),
//   - the held weight equals what the goroutines that were admitted hold.
// The schedules are whatever the Go scheduler produces, so this is a search: it fails only if the real
// code reaches a state that violates an invariant; when it finds nothing the violation is reported with
// "no-failing-input-found".

import (
	"context"
	"fmt"
	"runtime"
	"sync"
	"sync/atomic"
	"testing"
	"time"
)

func govcSearchQuiescentCheck(s *Weighted, held *int64, forced bool) string {
	s.mu.Lock()
	defer s.mu.Unlock()
	if !forced && s.cur > s.size {
		return fmt.Sprintf("held weight %d exceeds the size %d", s.cur, s.size)
	}
	if s.cur != atomic.LoadInt64(held) {
		return fmt.Sprintf("semaphore accounts %d, admitted goroutines hold %d", s.cur, atomic.LoadInt64(held))
	}
	if f := s.waiters.Front(); f != nil {
		w := f.Value.(waiter)
		if s.size-s.cur >= w.n {
			return fmt.Sprintf("lock free, first waiter of weight %d fits (size %d, held %d) but is parked", w.n, s.size, s.cur)
		}
	}
	return ""
}

func govcSearchScenario(seed uint64) string {
	x := seed*6364136223846793005 + 1442695040888963407
	next := func(n int) int {
		x = x*6364136223846793005 + 1442695040888963407
		return int((x >> 33) % uint64(n))
	}
	size := int64(1 + next(3))
	s := NewWeighted(size)
	var held int64
	var wg sync.WaitGroup
	workers := 2 + next(3)
	var parkedOrDone int32
	for g := 0; g < workers; g++ {
		wg.Add(1)
		kind := next(5)
		n := int64(next(int(size) + 1))
		delay := next(3)
		go func() {
			defer wg.Done()
			for i := 0; i < delay; i++ {
				runtime.Gosched()
			}
			switch kind {
			case 0, 1: // acquire, hold briefly, release
				if err := s.Acquire(context.Background(), n); err == nil {
					atomic.AddInt64(&held, n)
					runtime.Gosched()
					atomic.AddInt64(&held, -n)
					s.Release(n)
				}
			case 2: // acquire with a context that is cancelled soon
				ctx, cancel := context.WithCancel(context.Background())
				go func() { runtime.Gosched(); cancel() }()
				if err := s.Acquire(ctx, n); err == nil {
					atomic.AddInt64(&held, n)
					runtime.Gosched()
					atomic.AddInt64(&held, -n)
					s.Release(n)
				}
			case 3:
				if s.TryAcquire(n) {
					atomic.AddInt64(&held, n)
					runtime.Gosched()
					atomic.AddInt64(&held, -n)
					s.Release(n)
				}
			case 4: // acquire and keep (stays held at the end)
				if err := s.Acquire(context.Background(), n); err == nil {
					atomic.AddInt64(&held, n)
				}
			}
			atomic.AddInt32(&parkedOrDone, 1)
		}()
	}
	// wait until every goroutine is done or (for a bounded time) parked in Acquire
	done := make(chan struct{})
	go func() { wg.Wait(); close(done) }()
	select {
	case <-done:
	case <-time.After(20 * time.Millisecond):
	}
	// quiescence: nobody runs inside the semaphore for a moment
	for i := 0; i < 50; i++ {
		runtime.Gosched()
	}
	time.Sleep(200 * time.Microsecond)
	if m := govcSearchQuiescentCheck(s, &held, false); m != "" {
		// the state may be in flux (a goroutine between admission and bookkeeping): confirm twice
		time.Sleep(2 * time.Millisecond)
		if m2 := govcSearchQuiescentCheck(s, &held, false); m2 != "" {
			time.Sleep(20 * time.Millisecond)
			if m3 := govcSearchQuiescentCheck(s, &held, false); m3 != "" {
				return fmt.Sprintf("scenario seed %d (size %d, %d goroutines): %s", seed, size, workers, m3)
			}
		}
	}
	// let parked goroutines finish: release everything that is kept
	s.mu.Lock()
	s.size = 1 << 40
	s.notifyWaiters()
	s.mu.Unlock()
	select {
	case <-done:
	case <-time.After(2 * time.Second):
		return fmt.Sprintf("scenario seed %d: goroutines stay parked although the size was raised to 2^40", seed)
	}
	return ""
}

func TestGovcReplay(t *testing.T) {
	deadline := time.Now().Add(40 * time.Second)
	n := 0
	for seed := uint64(1); time.Now().Before(deadline) && seed < 200000; seed++ {
		n++
		if m := govcSearchScenario(seed); m != "" {
			t.Fatalf("FOUND after %d scenarios: %s", n, m)
		}
	}
	t.Logf("searched scenarios=%d", n)
}
