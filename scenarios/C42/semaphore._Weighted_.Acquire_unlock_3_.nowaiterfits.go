package semaphore

// Replay of the counterexample state of obligation
//   semaphore.(*Weighted).Acquire#unlock[3].nowaiterfits
// (the Unlock at the end of the cancellation arm of Acquire). Solver state: the cancelled waiter is
// the first one, size == cur, and the next waiter has weight 0, so `isFront && s.size > s.cur` is
// false, notifyWaiters is skipped, and the lock is released with a first waiter that fits.
// The scenario drives the real Weighted into that state and then inspects it under the lock.

import (
	"context"
	"testing"
	"time"
)

func TestGovcReplay(t *testing.T) {
	s := NewWeighted(1)
	if err := s.Acquire(context.Background(), 1); err != nil { // cur == size == 1
		t.Fatal(err)
	}
	waitLen := func(n int) {
		for i := 0; i < 2000; i++ {
			s.mu.Lock()
			l := s.waiters.Len()
			s.mu.Unlock()
			if l == n {
				return
			}
			time.Sleep(time.Millisecond)
		}
		t.Fatalf("waiter queue did not reach length %d", n)
	}
	ctxA, cancelA := context.WithCancel(context.Background())
	doneA := make(chan error, 1)
	go func() { doneA <- s.Acquire(ctxA, 1) }() // first waiter, weight 1: does not fit
	waitLen(1)
	doneB := make(chan error, 1)
	go func() { doneB <- s.Acquire(context.Background(), 0) }() // second waiter, weight 0: fits as soon as it is first
	waitLen(2)
	cancelA()
	if err := <-doneA; err == nil {
		t.Fatal("the cancelled Acquire succeeded")
	}
	// the lock is free now; the monitor invariant says: no first waiter that fits
	s.mu.Lock()
	n := s.waiters.Len()
	fits := false
	if n > 0 {
		w := s.waiters.Front().Value.(waiter)
		fits = s.size-s.cur >= w.n
	}
	size, cur := s.size, s.cur
	s.mu.Unlock()
	if fits {
		select {
		case <-doneB:
			t.Fatal("inconsistent observation")
		case <-time.After(200 * time.Millisecond):
		}
		t.Fatalf("REPRODUCED: lost wake-up: lock free, size=%d cur=%d, %d waiter(s) queued and the first one (weight 0) fits but stays parked", size, cur, n)
	}
}
