package algo

// Replay of the counterexample of obligation
//   algo.insert#post[0]      (ensures r != nil && avl(r))
// Solver model: n == nil (insertion into an empty sub-tree). The returned node is checked against an
// executable copy of the contract's predicate avl: stored height == true height, true height >= 1,
// sibling heights differ by at most one, everywhere. The second part shows what the wrong stored
// height leads to: three ascending insertions leave the map unbalanced.

import "testing"

type govcReplayCmp struct{}

func (govcReplayCmp) Cmp(a, b int) bool { return a < b }

type govcReplayAlloc[T any] struct{}

func (govcReplayAlloc[T]) allocate() *T { return new(T) }
func (govcReplayAlloc[T]) deallocate(p *T) {
	var z T
	*p = z
}

func govcTh(n *TreeNode[int]) int32 {
	if n == nil {
		return 0
	}
	return 1 + max(govcTh(n.left), govcTh(n.right))
}

func govcAvl(n *TreeNode[int]) bool {
	if n == nil {
		return true
	}
	d := govcTh(n.right) - govcTh(n.left)
	return govcAvl(n.left) && govcAvl(n.right) && n.height == govcTh(n) && govcTh(n) >= 1 && d <= 1 && d >= -1
}

func TestGovcReplay(t *testing.T) {
	r := insert[int, govcReplayCmp, govcReplayAlloc[TreeNode[int]]](nil, 7, govcReplayAlloc[TreeNode[int]]{})
	if r == nil || !govcAvl(r) {
		t.Errorf("REPRODUCED: insert(nil, 7): result violates avl: stored height %d, true height %d", r.height, govcTh(r))
	}
	var root *TreeNode[int]
	for _, k := range []int{0, 1, 2} {
		root = insert[int, govcReplayCmp, govcReplayAlloc[TreeNode[int]]](root, k, govcReplayAlloc[TreeNode[int]]{})
	}
	if d := govcTh(root.right) - govcTh(root.left); d > 1 || d < -1 {
		t.Errorf("REPRODUCED: after inserting 0, 1, 2 the root's sub-trees have heights %d and %d: the tree is not balanced", govcTh(root.left), govcTh(root.right))
	}
}
