package algo

// Bounded search for a failing input, used as the replay of C41 obligations that have no model
// replay (obligations over trees: the solver's counterexample is a tree over an uninterpreted
// element type and order). It drives the real TreeMap and CircularSlice through all short operation
// sequences over a small key domain, plus fixed pseudo-random long ones, and compares every
// observable result with a reference container; the tree is also checked against executable copies
// of the contract predicates (avl, bst). The test fails iff the real code misbehaves on one of them;
// the first failing sequence is printed. This is a search, not a proof: "no-failing-input-found"
// is reported when it passes.

import (
	"fmt"
	"sort"
	"testing"
)

type govcSearchCmp struct{}

func (govcSearchCmp) Cmp(a, b int) bool { return a < b }

type govcSearchAlloc[T any] struct{}

func (govcSearchAlloc[T]) allocate() *T { return new(T) }
func (govcSearchAlloc[T]) deallocate(p *T) {
	var z T
	*p = z
}

type govcNode = TreeNode[Entry[int, int]]

func govcSearchTh(n *govcNode) int32 {
	if n == nil {
		return 0
	}
	return 1 + max(govcSearchTh(n.left), govcSearchTh(n.right))
}

func govcSearchShape(n *govcNode, lo, hi int) string {
	if n == nil {
		return ""
	}
	if n.value.K <= lo || n.value.K >= hi {
		return fmt.Sprintf("key %d outside (%d, %d): search order broken", n.value.K, lo, hi)
	}
	hl, hr := govcSearchTh(n.left), govcSearchTh(n.right)
	if n.height != 1+max(hl, hr) {
		return fmt.Sprintf("node %d: stored height %d, true height %d", n.value.K, n.height, 1+max(hl, hr))
	}
	if hr-hl > 1 || hl-hr > 1 {
		return fmt.Sprintf("node %d: sub-tree heights %d and %d differ by more than one", n.value.K, hl, hr)
	}
	if s := govcSearchShape(n.left, lo, n.value.K); s != "" {
		return s
	}
	return govcSearchShape(n.right, n.value.K, hi)
}

// one operation: op >= 0: Set(op % keys, stamp); op < 0: Delete(-op-1)
func govcSearchRunTree(ops []int, keys int) string {
	m := NewTreeMap[int, int, govcSearchCmp](govcSearchAlloc[govcNode]{})
	ref := map[int]int{}
	for i, op := range ops {
		if op >= 0 {
			m.Set(op%keys, i+100)
			ref[op%keys] = i + 100
		} else {
			m.Delete(-op - 1)
			delete(ref, -op-1)
		}
		if s := govcSearchShape(m.root, -1<<30, 1<<30); s != "" {
			return fmt.Sprintf("after ops %v (k>=0: Set(k), k<0: Delete(-k-1)): %s", ops[:i+1], s)
		}
		var ks []int
		for k := range ref {
			ks = append(ks, k)
		}
		sort.Ints(ks)
		for k := -1; k <= keys; k++ {
			v, ok := m.Get(k)
			rv, rok := ref[k]
			if ok != rok || (ok && v != rv) {
				return fmt.Sprintf("after ops %v: Get(%d) = (%d, %v), reference (%d, %v)", ops[:i+1], k, v, ok, rv, rok)
			}
		}
		if m.Empty() != (len(ks) == 0) {
			return fmt.Sprintf("after ops %v: Empty() = %v with %d keys", ops[:i+1], m.Empty(), len(ks))
		}
		if m.LenMoreThan1() != (len(ks) > 1) {
			return fmt.Sprintf("after ops %v: LenMoreThan1() = %v with %d keys", ops[:i+1], m.LenMoreThan1(), len(ks))
		}
		if len(ks) > 0 {
			if f := m.Front(); f.K != ks[0] || f.V != ref[ks[0]] {
				return fmt.Sprintf("after ops %v: Front() = %v, smallest key %d", ops[:i+1], f, ks[0])
			}
			if b := m.Back(); b.K != ks[len(ks)-1] || b.V != ref[ks[len(ks)-1]] {
				return fmt.Sprintf("after ops %v: Back() = %v, largest key %d", ops[:i+1], b, ks[len(ks)-1])
			}
		}
	}
	return ""
}

func govcSearchRunSlice(ops []int) (msg string) {
	defer func() {
		if p := recover(); p != nil {
			msg = fmt.Sprintf("ops %v: panic %v", ops, p)
		}
	}()
	var s, other CircularSlice[int]
	var ref, refOther []int
	for i, op := range ops {
		switch op % 7 {
		case 0, 1:
			s.PushBack(i + 100)
			ref = append(ref, i+100)
		case 2:
			if len(ref) > 0 {
				if v := s.PopFront(); v != ref[0] {
					return fmt.Sprintf("ops %v: PopFront() = %d, reference %d", ops[:i+1], v, ref[0])
				}
				ref = ref[1:]
			}
		case 3:
			s.Reserve(op / 7)
		case 4:
			s.Swap(&other)
			ref, refOther = refOther, ref
		case 5:
			other.DeepAssign(s)
			refOther = append([]int(nil), ref...)
		case 6:
			if op/7 == 3 {
				s.Clear()
				ref = nil
			}
		}
		if s.Len() != len(ref) {
			return fmt.Sprintf("ops %v: Len() = %d, reference %d", ops[:i+1], s.Len(), len(ref))
		}
		for j := range ref {
			if s.Index(j) != ref[j] || *s.IndexRef(j) != ref[j] {
				return fmt.Sprintf("ops %v: Index(%d) = %d, reference %d", ops[:i+1], j, s.Index(j), ref[j])
			}
		}
		if len(ref) > 0 && s.Front() != ref[0] {
			return fmt.Sprintf("ops %v: Front() = %d, reference %d", ops[:i+1], s.Front(), ref[0])
		}
		a, b := s.Slices()
		if got := append(append([]int{}, a...), b...); fmt.Sprint(got) != fmt.Sprint(append([]int{}, ref...)) {
			return fmt.Sprintf("ops %v: Slices() = %v, reference %v", ops[:i+1], got, ref)
		}
		if other.Len() != len(refOther) {
			return fmt.Sprintf("ops %v: other.Len() = %d, reference %d", ops[:i+1], other.Len(), len(refOther))
		}
		for j := range refOther {
			if other.Index(j) != refOther[j] {
				return fmt.Sprintf("ops %v: other.Index(%d) = %d, reference %d", ops[:i+1], j, other.Index(j), refOther[j])
			}
		}
	}
	return ""
}

func TestGovcReplay(t *testing.T) {
	// exhaustive: all sequences of up to 6 tree operations over 4 keys
	const keys = 4
	var rec func(seq []int, depth int) string
	rec = func(seq []int, depth int) string {
		if depth == 0 {
			return govcSearchRunTree(seq, keys)
		}
		for op := -keys; op < keys; op++ {
			if s := rec(append(seq, op), depth-1); s != "" {
				return s
			}
		}
		return ""
	}
	for d := 1; d <= 6; d++ {
		if s := rec(nil, d); s != "" {
			t.Fatalf("FOUND (exhaustive, length %d): %s", d, s)
		}
	}
	// fixed pseudo-random long sequences (deterministic linear congruential generator)
	x := uint64(0x9E3779B97F4A7C15)
	next := func(n int) int {
		x = x*6364136223846793005 + 1442695040888963407
		return int((x >> 33) % uint64(n))
	}
	for round := 0; round < 300; round++ {
		kk := 8 + next(40)
		var ops []int
		for i := 0; i < 120; i++ {
			if next(3) == 0 {
				ops = append(ops, -next(kk)-1)
			} else {
				ops = append(ops, next(kk))
			}
		}
		if s := govcSearchRunTree(ops, kk); s != "" {
			t.Fatalf("FOUND (pseudo-random, round %d): %s", round, s)
		}
	}
	// ascending / descending builds followed by deletions at the root
	for n := 1; n <= 64; n++ {
		var ops []int
		for i := 0; i < n; i++ {
			ops = append(ops, i)
		}
		for i := 0; i < n/2; i++ {
			ops = append(ops, -(n/2+i/2)%n-1)
		}
		if s := govcSearchRunTree(ops, n+1); s != "" {
			t.Fatalf("FOUND (ascending build): %s", s)
		}
	}
	// circular slice: all sequences of up to 6 operations
	var rs func(seq []int, depth int) string
	rs = func(seq []int, depth int) string {
		if depth == 0 {
			return govcSearchRunSlice(seq)
		}
		for _, op := range []int{0, 2, 3 + 7*0, 3 + 7*1, 3 + 7*5, 4, 5, 6 + 7*3} {
			if s := rs(append(seq, op), depth-1); s != "" {
				return s
			}
		}
		return ""
	}
	for d := 1; d <= 6; d++ {
		if s := rs(nil, d); s != "" {
			t.Fatalf("FOUND (circular slice, length %d): %s", d, s)
		}
	}
	// circular slice: fixed pseudo-random long sequences (reach the wrapped state of larger buffers)
	for round := 0; round < 400; round++ {
		var ops []int
		pushBias := 2 + next(3)
		for i := 0; i < 150; i++ {
			switch r := next(10 + pushBias); {
			case r < 3+pushBias:
				ops = append(ops, 0)
			case r < 6+pushBias:
				ops = append(ops, 2)
			case r == 6+pushBias:
				ops = append(ops, 3+7*next(20))
			case r == 7+pushBias:
				ops = append(ops, 4)
			case r == 8+pushBias:
				ops = append(ops, 5)
			default:
				if next(4) == 0 {
					ops = append(ops, 6+7*3)
				} else {
					ops = append(ops, 0)
				}
			}
		}
		if s := govcSearchRunSlice(ops); s != "" {
			t.Fatalf("FOUND (circular slice, pseudo-random, round %d): %s", round, s)
		}
	}
}
