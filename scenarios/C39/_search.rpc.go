package rpc

// Randomised schedule search, used as the replay of C39 obligations about the worker pool. Several
// goroutines take a worker (Get), "run a handler" for a moment and give the worker back (Put), while
// the pool's limit is small. Checked all the time: no more handlers run at once than the limit, and
// Created() never reports more workers than the limit. The schedules are whatever the Go scheduler
// produces, so this is a search: it fails only if the real code exceeds the limit; when it finds
// nothing the violation is reported with "no-failing-input-found".

import (
	"fmt"
	"runtime"
	"sync"
	"sync/atomic"
	"testing"
	"time"

	"github.com/VKCOM/tl/internal/vkgo/pkg/semaphore"
)

func govcSearchPool(limit int, goroutines int, rounds int) string {
	pool := workerPoolNew(limit, nil)
	wgSem := semaphore.NewWeighted(1 << 30)
	var running, maxRunning, bad int32
	var wg sync.WaitGroup
	for g := 0; g < goroutines; g++ {
		wg.Add(1)
		go func(g int) {
			defer wg.Done()
			for r := 0; r < rounds; r++ {
				w, ok := pool.Get(wgSem)
				if !ok {
					return
				}
				if w == nil {
					w = &worker{workerPool: pool, ch: make(chan workerWork, 1)}
				}
				n := atomic.AddInt32(&running, 1)
				for {
					m := atomic.LoadInt32(&maxRunning)
					if n <= m || atomic.CompareAndSwapInt32(&maxRunning, m, n) {
						break
					}
				}
				if cur, total := pool.Created(); cur > total {
					atomic.StoreInt32(&bad, int32(cur))
				}
				for i := 0; i < (g+r)%3; i++ {
					runtime.Gosched()
				}
				atomic.AddInt32(&running, -1)
				pool.Put(w)
			}
		}(g)
	}
	done := make(chan struct{})
	go func() { wg.Wait(); close(done) }()
	select {
	case <-done:
	case <-time.After(5 * time.Second):
		return fmt.Sprintf("limit %d, %d goroutines: the pool dead-locks (Get never returns)", limit, goroutines)
	}
	if int(maxRunning) > limit {
		return fmt.Sprintf("limit %d, %d goroutines: %d handlers ran at once", limit, goroutines, maxRunning)
	}
	if bad != 0 {
		return fmt.Sprintf("limit %d: Created() reported %d workers", limit, bad)
	}
	return ""
}

func TestGovcReplay(t *testing.T) {
	deadline := time.Now().Add(30 * time.Second)
	n := 0
	for time.Now().Before(deadline) {
		for limit := 1; limit <= 3; limit++ {
			for gs := limit + 1; gs <= limit+4; gs++ {
				n++
				if m := govcSearchPool(limit, gs, 200); m != "" {
					t.Fatalf("FOUND after %d runs: %s", n, m)
				}
			}
		}
	}
	t.Logf("searched runs=%d", n)
}
