package tlcodegen

// Bounded search, used as the replay of C30 obligations that have no scenario of their own (and of
// "no longer verifiable" reports). It builds small schema pairs through the parser and asks the real
// linter for its verdict. Every pair below is an UNSAFE edit in the sense of the property, so the
// linter must reject it (return an error, not nil, not panic):
//   A. a type with one constructor gets a second one while some field of the old schema uses it bare
//      (%Foo) or by its constructor name - at every position of type references of depth <= 3 over a
//      two-argument generic type, with 0..2 other fields before it;
//   B. the type of an existing field changes in one place - bareness of a leaf toggled, a numeric
//      argument changed, a type argument replaced by a number or removed - at every position of
//      references of depth <= 3;
//   C. field masks: mask added to / removed from an existing field, mask bit changed, field removed,
//      template argument removed; an unmasked field appended to a constructor; appended fields that
//      reuse a bit which an old field already uses (at every position among 1..3 appended fields).
// It fails only if the real code accepts one of them; when it finds nothing the violation is reported
// with "no-failing-input-found". Bounds: depth 3, at most 3 appended fields; about 3,000 pairs.

import (
	"fmt"
	"strings"
	"testing"

	"github.com/VKCOM/tl/internal/tlast"
)

const govcSearchPre = "int ? = Int;\nlong ? = Long;\npair {X:Type} {Y:Type} a:X b:Y = Pair X Y;\ntuple {t:Type} {n:#} [t] = Tuple t n;\nfoo x:int = Foo;\n"

func govcSearchVerdict(oldText, newText string) (accepted bool, note string) {
	parse := func(text string) ([]*tlast.Combinator, error) {
		tl, err := tlast.ParseTLFile(text, "search.tl", tlast.LexerOptions{AllowBuiltin: false, AllowDirty: false})
		if err != nil {
			return nil, err
		}
		return tl.Combinators(), nil
	}
	o, err := parse(oldText)
	if err != nil {
		return false, "skip"
	}
	n, err := parse(newText)
	if err != nil {
		return false, "skip"
	}
	var verdict *tlast.ParseError
	panicked := func() (p any) {
		defer func() { p = recover() }()
		verdict = CheckBackwardCompatibility(n, o)
		return nil
	}()
	if panicked != nil {
		return true, fmt.Sprintf("the linter panics: %v", panicked)
	}
	if verdict == nil {
		return true, "the linter accepts"
	}
	return false, ""
}

// type expressions of depth <= d with exactly one hole "@"
func govcSearchShapes(d int) []string {
	out := []string{"@"}
	if d == 0 {
		return out
	}
	fill := []string{"int", "(pair int long)"}
	for _, s := range govcSearchShapes(d - 1) {
		for _, f := range fill {
			out = append(out, "(pair "+s+" "+f+")", "(pair "+f+" "+s+")")
		}
	}
	return out
}

func TestGovcReplay(t *testing.T) {
	n := 0
	shapes := govcSearchShapes(3)
	// A. bare use while the type becomes a union
	for _, sh := range shapes {
		for _, use := range []string{"%Foo", "foo"} {
			for before := 0; before <= 2; before++ {
				fields := strings.Repeat("q:int ", before) + "p:" + strings.ReplaceAll(sh, "@", use)
				old := govcSearchPre + "bar " + fields + " = Bar;\n"
				if acc, note := govcSearchVerdict(old, old+"foo2 y:int = Foo;\n"); acc {
					t.Fatalf("FOUND after %d pairs: type Foo turns into a union while the old schema has `bar %s = Bar;`: %s", n, fields, note)
				}
				n++
			}
		}
	}
	// B. one change inside the type of an existing field
	edits := [][2]string{{"%Foo", "Foo"}, {"Foo", "%Foo"}, {"(tuple int 3)", "(tuple int 4)"}, {"(tuple int 3)", "(tuple int int)"},
		{"(tuple int 3)", "(tuple int)"}, {"(pair int long)", "(pair int)"}, {"(tuple long 2)", "(tuple 2 2)"}}
	for _, sh := range shapes {
		for _, e := range edits {
			for before := 0; before <= 1; before++ {
				pre := strings.Repeat("q:int ", before)
				old := govcSearchPre + "bar " + pre + "p:" + strings.ReplaceAll(sh, "@", e[0]) + " = Bar;\n"
				nw := govcSearchPre + "bar " + pre + "p:" + strings.ReplaceAll(sh, "@", e[1]) + " = Bar;\n"
				if acc, note := govcSearchVerdict(old, nw); acc && note != "skip" {
					t.Fatalf("FOUND after %d pairs: field type %s becomes %s: %s", n, strings.ReplaceAll(sh, "@", e[0]), strings.ReplaceAll(sh, "@", e[1]), note)
				}
				n++
				// the same for the result type of a function
				oldF := govcSearchPre + "---functions---\n@any get m:# = " + strings.ReplaceAll(sh, "@", e[0]) + ";\n"
				newF := govcSearchPre + "---functions---\n@any get m:# = " + strings.ReplaceAll(sh, "@", e[1]) + ";\n"
				if acc, note := govcSearchVerdict(oldF, newF); acc && note != "skip" {
					t.Fatalf("FOUND after %d pairs: function result %s becomes %s: %s", n, strings.ReplaceAll(sh, "@", e[0]), strings.ReplaceAll(sh, "@", e[1]), note)
				}
				n++
			}
		}
	}
	// C. masks, removals, appended fields
	type pair struct{ what, old, nw string }
	var cs []pair
	base := "bar m:# a:m.0?int b:m.1?int c:long = Bar;\n"
	cs = append(cs,
		pair{"mask added to an existing field", base, "bar m:# a:m.0?int b:m.1?int c:m.2?long = Bar;\n"},
		pair{"mask removed from an existing field", base, "bar m:# a:m.0?int b:int c:long = Bar;\n"},
		pair{"mask bit of an existing field changed", base, "bar m:# a:m.0?int b:m.5?int c:long = Bar;\n"},
		pair{"last field removed", base, "bar m:# a:m.0?int b:m.1?int = Bar;\n"},
		pair{"unmasked field appended", base, "bar m:# a:m.0?int b:m.1?int c:long d:int = Bar;\n"},
		pair{"template argument removed", "baz {X:Type} {Y:Type} a:X = Baz X Y;\n", "baz {X:Type} a:X = Baz X;\n"},
		pair{"mask reference changed", "bar m:# k:# a:m.0?int = Bar;\n", "bar m:# k:# a:k.0?int = Bar;\n"},
	)
	// appended fields on two different masks, one of them reusing a bit of its own mask
	base2 := "bar m:# k:# a:m.0?int b:k.1?int = Bar;\n"
	for _, app := range []string{"z:m.1?int w:k.1?int", "w:k.1?int z:m.1?int", "z:m.0?int w:k.0?int", "w:k.0?int z:m.0?int", "z:m.2?int w:k.2?int v:k.1?int"} {
		cs = append(cs, pair{"appended fields on two masks, one reuses a bit of its mask (" + app + ")", base2, "bar m:# k:# a:m.0?int b:k.1?int " + app + " = Bar;\n"})
	}
	for total := 1; total <= 3; total++ {
		for bad := 0; bad < total; bad++ {
			for _, usedBit := range []int{0, 1} {
				var app []string
				free := 2
				for i := 0; i < total; i++ {
					bit := free
					free++
					if i == bad {
						bit = usedBit
					}
					app = append(app, fmt.Sprintf("n%d:m.%d?int", i, bit))
				}
				cs = append(cs, pair{fmt.Sprintf("appended field %d of %d reuses bit %d", bad+1, total, usedBit), base,
					"bar m:# a:m.0?int b:m.1?int c:long " + strings.Join(app, " ") + " = Bar;\n"})
			}
			var app []string
			for i := 0; i < total; i++ {
				if i == bad {
					app = append(app, fmt.Sprintf("n%d:int", i))
				} else {
					app = append(app, fmt.Sprintf("n%d:m.%d?int", i, 2+i))
				}
			}
			cs = append(cs, pair{fmt.Sprintf("appended field %d of %d has no mask", bad+1, total), base,
				"bar m:# a:m.0?int b:m.1?int c:long " + strings.Join(app, " ") + " = Bar;\n"})
		}
	}
	for _, c := range cs {
		acc, note := govcSearchVerdict(govcSearchPre+c.old, govcSearchPre+c.nw)
		if note == "skip" {
			t.Fatalf("the search itself is broken: a schema of case %q does not parse", c.what)
		}
		if acc {
			t.Fatalf("FOUND after %d pairs: %s (old `%s`, new `%s`): %s", n, c.what, strings.TrimSpace(c.old), strings.TrimSpace(c.nw), note)
		}
		n++
	}
	t.Logf("searched pairs=%d", n)
}
