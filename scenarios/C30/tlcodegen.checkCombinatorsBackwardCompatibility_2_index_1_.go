package tlcodegen

// Replay of the counterexample of obligation
//   tlcodegen.checkCombinatorsBackwardCompatibility$2#index[1]     (newType.Args[i], tlgen.go)
// Solver model: len(newType.Args) < len(oldType.Args) with i < len(oldType.Args): the loop of
// compareTypes runs over the arguments of the OLD type reference and indexes the NEW one.
// The scenario reaches that state through the public entry point: the old schema has a field of
// type `(foo int)` (one type argument), the new one `foo` (none) - the unsafe edit "a template
// argument was removed". The linter must return a verdict (an error); it panics instead.

import (
	"testing"

	"github.com/VKCOM/tl/internal/tlast"
)

func govcReplayParse(t *testing.T, text string) []*tlast.Combinator {
	tl, err := tlast.ParseTLFile(text, "replay.tl", tlast.LexerOptions{AllowBuiltin: false, AllowDirty: false})
	if err != nil {
		t.Fatalf("schema does not parse: %v", err)
	}
	return tl.Combinators()
}

func TestGovcReplay(t *testing.T) {
	oldTL := govcReplayParse(t, "int#a8509bda ? = Int;\nbar y:(foo int) = Bar;\nfoo {t:Type} x:t = Foo t;\n")
	newTL := govcReplayParse(t, "int#a8509bda ? = Int;\nbar y:foo = Bar;\nfoo x:int = Foo;\n")
	var verdict *tlast.ParseError
	panicked := func() (p any) {
		defer func() { p = recover() }()
		verdict = CheckBackwardCompatibility(newTL, oldTL)
		return nil
	}()
	if panicked != nil {
		t.Fatalf("REPRODUCED: the linter panics instead of rejecting the edit: %v", panicked)
	}
	if verdict == nil {
		t.Fatalf("REPRODUCED: the linter accepts the removal of a template argument")
	}
}
