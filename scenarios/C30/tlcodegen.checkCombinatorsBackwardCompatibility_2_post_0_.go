package tlcodegen

// Replay of obligation
//   tlcodegen.checkCombinatorsBackwardCompatibility$2#post[0]     (compareTypes, tlgen.go)
//     e == nil ==> sameShape(*newType, *oldType)
// sameShape demands, at every depth of the two type references: the same bareness, no type argument
// removed, the same kind and (for numbers) value of every old argument. The verifier cannot discharge
// it when compareTypes does not compare some of this. The scenarios go through the public entry point
// with schemas the generator front end accepts (as cmd/tlgen runs it before the linter), one for each
// part of sameShape:
//   - bareness: a field of type %Foo becomes Foo. The bare encoding has no constructor tag, the boxed
//     one starts with 4 bytes of tag: old data is no longer readable - "changes the type of an
//     existing field".
//   - a numeric type argument changes its value: (tuple int 3) becomes (tuple int 4).

import (
	"io"
	"testing"

	"github.com/VKCOM/tl/internal/tlast"
)

func govcReplayLint2(t *testing.T, oldText, newText string) *tlast.ParseError {
	parse := func(text string) []*tlast.Combinator {
		tl, err := tlast.ParseTLFile(text, "replay.tl", tlast.LexerOptions{AllowBuiltin: false, AllowDirty: false})
		if err != nil {
			t.Fatalf("schema does not parse: %v", err)
		}
		return tl.Combinators()
	}
	oldTL, newTL := parse(oldText), parse(newText)
	for _, s := range [][]*tlast.Combinator{parse(oldText), parse(newText)} {
		if _, err := GenerateCode(s, tlast.TL2File{}, Gen2Options{ErrorWriter: io.Discard}); err != nil {
			t.Fatalf("a schema of the scenario is not a valid schema: %v", err)
		}
	}
	return CheckBackwardCompatibility(newTL, oldTL)
}

func TestGovcReplay(t *testing.T) {
	const pre = "int ? = Int;\ntuple {t:Type} {n:#} [t] = Tuple t n;\nfoo x:int = Foo;\n"
	if v := govcReplayLint2(t, pre+"bar p:%Foo = Bar;\n", pre+"bar p:Foo = Bar;\n"); v == nil {
		t.Fatalf("REPRODUCED: the field p:%%Foo (bare, no constructor tag on the wire) becomes p:Foo (boxed, 4 bytes of tag first) and the linter accepts the edit")
	}
	if v := govcReplayLint2(t, pre+"bar p:(tuple int 3) = Bar;\n", pre+"bar p:(tuple int 4) = Bar;\n"); v == nil {
		t.Fatalf("REPRODUCED: the field p:(tuple int 3) becomes p:(tuple int 4) and the linter accepts the edit")
	}
}
