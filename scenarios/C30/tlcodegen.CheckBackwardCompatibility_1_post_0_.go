package tlcodegen

// Replay of obligation
//   tlcodegen.CheckBackwardCompatibility$1#post[0]     (checkBoxUsage, tlgen.go)
//     r.Err == nil ==> !bareUse(ref, typeName, constructorName)
// The verifier cannot discharge it when the closure returns the verdict of its first type argument
// without looking at the others (`return checkBoxUsage(arg.T)` inside the loop over ref.Args): a
// reference `(pair int %Foo)` is accepted although its second argument uses Foo bare.
// The scenario reaches that state through the public entry point, used the way the repository's own
// linter test uses it (internal/tlcodegen/test/codegen_test/linter; compare its sample
// add-constructors-to-nonunion-with-bare-usages.tl): type Foo has one constructor in the old schema,
// the new schema adds a second one (Foo turns into a union) and everything else stays as it is. The
// old schema uses Foo bare in the SECOND argument of a type reference. The property demands a
// rejection "wherever in a schema the edit occurs"; with the bare use in the FIRST argument the
// linter does reject.

import (
	"testing"

	"github.com/VKCOM/tl/internal/tlast"
)

func govcReplayLint(t *testing.T, oldText, newText string) *tlast.ParseError {
	parse := func(text string) []*tlast.Combinator {
		tl, err := tlast.ParseTLFile(text, "replay.tl", tlast.LexerOptions{AllowBuiltin: false, AllowDirty: false})
		if err != nil {
			t.Fatalf("schema does not parse: %v", err)
		}
		return tl.Combinators()
	}
	return CheckBackwardCompatibility(parse(newText), parse(oldText))
}

func TestGovcReplay(t *testing.T) {
	const pre = "int#a8509bda ? = Int;\npair {X:Type} {Y:Type} a:X b:Y = Pair X Y;\nfoo x:int = Foo;\n"
	const more = "foo2 y:int = Foo;\n"
	// control: bare use in the first argument
	if v := govcReplayLint(t, pre+"bar p:(pair %Foo int) = Bar;\n", pre+more+"bar p:(pair %Foo int) = Bar;\n"); v == nil {
		t.Fatalf("REPRODUCED: Foo turns into a union while used bare as first type argument, and the linter accepts")
	}
	// the scenario: bare use in the second argument
	if v := govcReplayLint(t, pre+"bar p:(pair int %Foo) = Bar;\n", pre+more+"bar p:(pair int %Foo) = Bar;\n"); v == nil {
		t.Fatalf("REPRODUCED: Foo turns into a union while used bare as second type argument of (pair int %%Foo), and the linter accepts the edit")
	}
	// deeper: second argument of a nested reference
	if v := govcReplayLint(t, pre+"bar p:(pair int (pair int %Foo)) = Bar;\n", pre+more+"bar p:(pair int (pair int %Foo)) = Bar;\n"); v == nil {
		t.Fatalf("REPRODUCED: Foo turns into a union while used bare inside a nested type argument, and the linter accepts the edit")
	}
}
