package udp

// Bounded search for a failing input, used as the replay of C37 obligations without a model replay
// (same harness as /verif/bounded/C37). AddAckRange edits the linked list of
// ranges through two cursors inside a loop and is outside what the contract verifier accepts.
// Bound: every sequence of at most 4 recorded ranges [from, to] with 0 <= from <= to <= 6 (28 ranges,
// 28 + 28^2 + 28^3 + 28^4 = 637,420 sequences), and every sequence of at most 3 ranges over 0..9.
// After every AddAckRange the state is compared with a reference set of recorded numbers:
//   - representation: ackPrefix, then ranges that are non-empty, sorted, disjoint and non-adjacent,
//     the first one starting above ackPrefix (the predicate rwf of verif_contracts.go);
//   - content: a number is acknowledged (below ackPrefix or inside a range) iff it was recorded,
//     where "recorded" follows the code's convention that everything below a recorded prefix counts;
//   - the headers built by BuildAck / BuildNegativeAck acknowledge only recorded numbers and request
//     only unrecorded ones (these two functions are also proved for all states by contract).

import (
	"fmt"
	"testing"

	"github.com/VKCOM/tl/pkg/rpc/internal/gen/tlnetUdpPacket"
)

func govcBoundedCheck(a *AcksToSend, rec map[uint32]bool, limit uint32) string {
	// representation
	p := a.ackPrefix
	for r := a.firstRange; r != nil; r = r.next {
		if !(p < r.ackFrom && r.ackFrom <= r.ackTo) {
			return fmt.Sprintf("representation broken: prefix/previous end+1 = %d, range [%d..%d]", p, r.ackFrom, r.ackTo)
		}
		p = r.ackTo + 1
	}
	acked := func(x uint32) bool {
		if x < a.ackPrefix {
			return true
		}
		for r := a.firstRange; r != nil; r = r.next {
			if r.ackFrom <= x && x <= r.ackTo {
				return true
			}
		}
		return false
	}
	for x := uint32(0); x <= limit+2; x++ {
		if acked(x) != rec[x] {
			return fmt.Sprintf("number %d: acknowledged=%v recorded=%v", x, acked(x), rec[x])
		}
	}
	var enc tlnetUdpPacket.EncHeader
	a.BuildAck(&enc)
	if enc.IsSetPacketAckPrefix() {
		for x := uint32(0); x <= enc.PacketAckPrefix; x++ {
			if !rec[x] {
				return fmt.Sprintf("header acknowledges prefix up to %d but %d was not recorded", enc.PacketAckPrefix, x)
			}
		}
	}
	if a.HaveHoles() {
		for x := enc.PacketAckFrom; x <= enc.PacketAckTo; x++ {
			if !rec[x] {
				return fmt.Sprintf("header acknowledges range [%d..%d] but %d was not recorded", enc.PacketAckFrom, enc.PacketAckTo, x)
			}
		}
		if enc.IsSetPacketAckSet() {
			for _, x := range enc.PacketAckSet {
				if !rec[x] {
					return fmt.Sprintf("header acknowledges %d in the explicit set but it was not recorded", x)
				}
			}
		}
	}
	var req tlnetUdpPacket.ResendRequest
	a.BuildNegativeAck(&req)
	for _, rr := range req.Ranges {
		for x := rr.PacketNumFrom; x <= rr.PacketNumTo; x++ {
			if rec[x] {
				return fmt.Sprintf("resend request [%d..%d] contains the recorded number %d", rr.PacketNumFrom, rr.PacketNumTo, x)
			}
		}
	}
	return ""
}

func govcBoundedRun(t *testing.T, limit uint32, depth int) int {
	type rng struct{ from, to uint32 }
	var all []rng
	for f := uint32(0); f <= limit; f++ {
		for to := f; to <= limit; to++ {
			all = append(all, rng{f, to})
		}
	}
	count := 0
	var rec func(seq []rng, d int)
	rec = func(seq []rng, d int) {
		// replay the sequence from scratch (states are tiny)
		a := &AcksToSend{}
		recorded := map[uint32]bool{}
		for i, r := range seq {
			a.AddAckRange(r.from, r.to)
			// the code's convention: a range starting at or below the prefix extends the prefix,
			// i.e. numbers are recorded as given
			for x := r.from; x <= r.to; x++ {
				recorded[x] = true
			}
			if i == len(seq)-1 {
				count++
				if msg := govcBoundedCheck(a, recorded, limit); msg != "" {
					t.Fatalf("FOUND after AddAckRange sequence %v: %s", seq, msg)
				}
			}
		}
		if d == 0 {
			return
		}
		for _, r := range all {
			rec(append(seq, r), d-1)
		}
	}
	rec(nil, depth)
	return count
}

func TestGovcReplay(t *testing.T) {
	n := govcBoundedRun(t, 6, 4)
	n += govcBoundedRun(t, 9, 3)
	t.Logf("searched cases=%d", n)
}
