#!/bin/bash
cd /verif
run() { echo "=== $1/$2"; ./seedtest.sh $3 /tmp/seed/$1/$2 $4 ${5:-}; }
run C24 1 C24 internal/pure
run C24 2 C24 internal/pure
run C24 3 C24 internal/pure
run C19p 1 C19 internal/tlast
run C19p 2 C19 internal/tlast
run C19p 3 C19 internal/tlast
run C19p 4 C19 internal/tlast
