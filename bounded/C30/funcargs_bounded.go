package tlcodegen

// BOUNDED check (not a proof) standing in for one rule of the compatibility linter that the contracts of
// C30 state only in a weakened form: for FUNCTIONS the first appended argument is exempt from "must have
// a field mask" when it is itself a new `#` argument that serves as field mask for the following ones.
// Whether an argument "is a #" is decided in the code by comparing the result of Name.String() with "#";
// the contract language cannot tie that string to the code, so the contract only promises masks from the
// SECOND appended argument on. This check covers the gap on the real code.
// Bound: three old functions (no # argument; an unused # argument; a # argument already used as mask) and
// every sequence of 1..3 appended arguments over the alphabet
//     y:int (unmasked, not #)   f:# (unmasked #)   masked by f   masked by the old # (free bit)   masked by the old # (used bit)
// (masks referring to an argument that does not exist in the variant are skipped). A variant is certainly
// unsafe when it appends an unmasked argument that is not a `#`, or reuses the used bit: old clients do
// not send such an argument / give the bit another meaning. Every such variant must be rejected.

import (
	"fmt"
	"strings"
	"testing"

	"github.com/VKCOM/tl/internal/tlast"
)

func TestGovcBounded(t *testing.T) {
	const pre = "int ? = Int;\n---functions---\n"
	olds := []struct {
		decl   string
		oldNat string // name of an old # argument ("" = none)
		used   bool   // bit 0 of it is used by an old argument
	}{
		{"@any get x:int = Int;\n", "", false},
		{"@any get n:# x:int = Int;\n", "n", false},
		{"@any get n:# x:n.0?int = Int;\n", "n", true},
	}
	parse := func(text string) []*tlast.Combinator {
		tl, err := tlast.ParseTLFile(text, "bounded.tl", tlast.LexerOptions{AllowBuiltin: false, AllowDirty: false})
		if err != nil {
			t.Fatalf("the bounded check itself is broken: schema does not parse: %v\n%s", err, text)
		}
		return tl.Combinators()
	}
	evals, unsafe := 0, 0
	for _, o := range olds {
		for n := 1; n <= 3; n++ {
			total := 1
			for i := 0; i < n; i++ {
				total *= 5
			}
			for code := 0; code < total; code++ {
				var args []string
				hasF, ok, bad := false, true, false
				c := code
				for i := 0; i < n && ok; i++ {
					kind := c % 5
					c /= 5
					switch kind {
					case 0:
						args = append(args, fmt.Sprintf("y%d:int", i))
						bad = true
					case 1:
						if hasF {
							ok = false // one new mask argument is enough
						}
						hasF = true
						args = append(args, "f:#")
					case 2:
						if !hasF {
							ok = false
						}
						args = append(args, fmt.Sprintf("z%d:f.%d?int", i, i))
					case 3:
						if o.oldNat == "" {
							ok = false
						}
						args = append(args, fmt.Sprintf("w%d:%s.%d?int", i, o.oldNat, 1+i))
					case 4:
						if !o.used {
							ok = false
						}
						args = append(args, fmt.Sprintf("v%d:%s.0?int", i, o.oldNat))
						bad = true
					}
				}
				if !ok {
					continue
				}
				evals++
				if !bad {
					continue
				}
				unsafe++
				newDecl := strings.Replace(o.decl, " = Int;", " "+strings.Join(args, " ")+" = Int;", 1)
				var verdict *tlast.ParseError
				oc, nc := parse(pre+o.decl), parse(pre+newDecl)
				panicked := func() (p any) {
					defer func() { p = recover() }()
					verdict = CheckBackwardCompatibility(nc, oc)
					return nil
				}()
				if panicked != nil {
					t.Fatalf("FOUND: the linter panics: %v\nold: %snew: %s", panicked, o.decl, newDecl)
				}
				if verdict == nil {
					t.Fatalf("FOUND: an unmasked non-# argument (or an argument on a used bit) is appended to a function and the linter accepts\nold: %snew: %s", o.decl, newDecl)
				}
			}
		}
	}
	t.Logf("unsafe variants rejected: %d of %d generated", unsafe, evals)
	fmt.Printf("GOVC-BOUNDED evaluations=%d\n", evals)
}
