package tlcodegen

// BOUNDED check (not a proof) standing in for the part of the compatibility linter that the contract
// verifier cannot reach: NAME RESOLUTION. compareTypes and the field-mask comparison decide through two
// maps (name -> position of a field / template argument) whether a name in the new version refers to the
// same declaration as the corresponding name in the old version; those maps escape into a closure and are
// opaque to the verifier, so the contracts of C30 say nothing about it.
// Bound: four small combinator shapes; in each, EVERY way of re-pointing its references among the
// declared names, combined with every order of the declarations, is generated as the "new" version
// (the old version is fixed). A variant is unsafe exactly when some reference of an existing field (or of
// the function result) resolves to a different POSITION than before; every unsafe variant must be rejected.
//   1. two type parameters:   pair2 {X:Type} {Y:Type} a:X b:Y c:(pair X Y) = Pair2 X Y;
//   2. two numeric parameters: tup2 {n:#} {k:#} a:(tuple int n) b:(tuple int k) = Tup2 n k;
//   3. a function whose result refers to an argument:  @any get n:# k:# = Tuple int n;
//   4. field masks:           bar m:# k:# a:m.0?int b:k.1?int = Bar;
// Safe variants (pure consistent renamings) are generated too and only counted.

import (
	"fmt"
	"testing"

	"github.com/VKCOM/tl/internal/tlast"
)

const govcBoundedPre = "int ? = Int;\npair {X:Type} {Y:Type} a:X b:Y = Pair X Y;\ntuple {t:Type} {n:#} [t] = Tuple t n;\n"

func govcBoundedVerdict(t *testing.T, oldText, newText string) (accepted bool) {
	parse := func(text string) []*tlast.Combinator {
		tl, err := tlast.ParseTLFile(text, "bounded.tl", tlast.LexerOptions{AllowBuiltin: false, AllowDirty: false})
		if err != nil {
			t.Fatalf("the bounded check itself is broken: schema does not parse: %v\n%s", err, text)
		}
		return tl.Combinators()
	}
	o, n := parse(oldText), parse(newText)
	var verdict *tlast.ParseError
	panicked := func() (p any) {
		defer func() { p = recover() }()
		verdict = CheckBackwardCompatibility(n, o)
		return nil
	}()
	if panicked != nil {
		t.Fatalf("FOUND: the linter panics: %v\nold:\n%snew:\n%s", panicked, oldText, newText)
	}
	return verdict == nil
}

func TestGovcBounded(t *testing.T) {
	evals, unsafe := 0, 0
	names := [2]string{"X", "Y"}
	check := func(what, oldDecl, newDecl string, isUnsafe bool) {
		evals++
		if !isUnsafe {
			return
		}
		unsafe++
		if govcBoundedVerdict(t, govcBoundedPre+oldDecl, govcBoundedPre+newDecl) {
			t.Fatalf("FOUND: %s: a reference resolves to a different declaration and the linter accepts\nold: %snew: %s", what, oldDecl, newDecl)
		}
	}
	// 1. and 2.: two parameters p0 p1 (declaration order may be swapped), four / two reference slots
	for shape := 1; shape <= 2; shape++ {
		if shape == 2 {
			names = [2]string{"n", "k"}
		}
		decl := func(order [2]int, refs []int) string {
			p := func(i int) string { return names[order[i]] }
			r := func(i int) string { return names[refs[i]] }
			if shape == 1 {
				return fmt.Sprintf("pair2 {%s:Type} {%s:Type} a:%s b:%s c:(pair %s %s) = Pair2 %s %s;\n", p(0), p(1), r(0), r(1), r(2), r(3), p(0), p(1))
			}
			return fmt.Sprintf("tup2 {%s:#} {%s:#} a:(tuple int %s) b:(tuple int %s) = Tup2 %s %s;\n", p(0), p(1), r(0), r(1), p(0), p(1))
		}
		slots := 4
		oldRefs := []int{0, 1, 0, 1}
		if shape == 2 {
			slots, oldRefs = 2, []int{0, 1}
		}
		oldDecl := decl([2]int{0, 1}, oldRefs)
		for _, order := range [][2]int{{0, 1}, {1, 0}} {
			for bits := 0; bits < 1<<slots; bits++ {
				refs := make([]int, slots)
				changed := false
				for s := 0; s < slots; s++ {
					refs[s] = (bits >> s) & 1
					// position of the referenced name in the new declaration order
					pos := 0
					if order[1] == refs[s] {
						pos = 1
					}
					if pos != oldRefs[s] {
						changed = true
					}
				}
				check(fmt.Sprintf("shape %d, order %v, references %v", shape, order, refs), oldDecl, decl(order, refs), changed)
			}
		}
	}
	// 3. function result referring to an argument
	for _, order := range [][2]string{{"n", "k"}, {"k", "n"}} {
		for _, ref := range []string{"n", "k"} {
			pos := 0
			if order[1] == ref {
				pos = 1
			}
			check("function result", "---functions---\n@any get n:# k:# = Tuple int n;\n",
				fmt.Sprintf("---functions---\n@any get %s:# %s:# = Tuple int %s;\n", order[0], order[1], ref), pos != 0)
		}
	}
	// 4. field masks
	for _, order := range [][2]string{{"m", "k"}, {"k", "m"}} {
		for _, ra := range []string{"m", "k"} {
			for _, rb := range []string{"m", "k"} {
				pos := func(r string) int {
					if order[1] == r {
						return 1
					}
					return 0
				}
				check("field masks", "bar m:# k:# a:m.0?int b:k.1?int = Bar;\n",
					fmt.Sprintf("bar %s:# %s:# a:%s.0?int b:%s.1?int = Bar;\n", order[0], order[1], ra, rb), pos(ra) != 0 || pos(rb) != 1)
			}
		}
	}
	t.Logf("unsafe variants rejected: %d of %d generated", unsafe, evals)
	fmt.Printf("GOVC-BOUNDED evaluations=%d\n", evals)
}
